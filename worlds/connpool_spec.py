from sim.runner import Spec
from worlds import connpool


class ConnPoolSpec(Spec):
    world = 'connpool'
    wall_cap = {'quick': 900, 'thorough': 7200}
    components = {
        'real': ['edb/server/connpool/pool.py (Pool, BasePool, Block: all of it)',
                 'edb/server/connpool/rolavg.py', 'edb/server/connpool/config.py',
                 'asyncio tasks/futures/sleep/gather (stock CPython 3.12)'],
        'stub': ['fake PostgreSQL: connect()/disconnect() callbacks with simulated latency and failures',
                 'client tasks and operator events (prune)',
                 'event loop: sim.loop.SimLoop (virtual time, stock ordering rules)',
                 'time.monotonic of pool.py -> simulated clock', 'logger -> null logger'],
        'model': [],
        'not_covered': ['edb/server/connpool/pool2.py + Rust pool (not buildable offline)', '_NaivePool (test-only class)'],
    }

    def __init__(self, pid):
        self.property_id = pid
        if pid == 'C15':
            self.strata = {
                'quick': [('core', 5), ('nofault', 2), ('disc_fail', 1), ('cancel', 1), ('prune_all', 1), ('prune_busy', 1)],
                'thorough': [('core', 5), ('nofault', 2), ('disc_fail', 1), ('cancel', 1), ('prune_all', 1), ('prune_busy', 1)],
            }
            self.runs = {'quick': 20000, 'thorough': 600000}
            self.rule = ('one run = one seeded world (1-10 databases, capacity 1-8, 1-40 clients, drawn latencies, '
                         'fault kinds enabled per run) executed to quiescence with invariants I1-I8 evaluated after every '
                         'event-loop callback; non-trivial = at least one acquire() was issued while another was pending; '
                         'distinct = distinct 64-bit digests of the id-free event sequence (acquire/acquired/release/connect/'
                         'disconnect/fail/prune/stall with client and database index) among non-trivial runs')
        else:
            self.strata = {
                'quick': [('core', 6), ('nofault', 3)],
                'thorough': [('core', 6), ('nofault', 3)],
            }
            self.runs = {'quick': 20000, 'thorough': 600000}
            self.rule = ('same world as C15; oracle = every acquire() resolves: violation iff an acquire is pending while the '
                         'environment is quiescent (faults stopped, no connect/disconnect in flight, every holder released, no '
                         'arrivals left) and either the loop is idle or `bound` simulated seconds pass without any request '
                         'completing; errors only from exhausted connect retries on that database; non-trivial/distinct as for C15')
        self.assumptions = [
            'SimLoop orders callbacks like asyncio.BaseEventLoop._run_once of CPython 3.12 and never permutes the ready queue',
            'the fake backend is the ground truth for open/connecting/closing connections',
            'connect/disconnect latencies are multiples of 5 ms up to 1 s; holders release after at most 0.3 s',
        ]

    def run_world(self, tape, stratum, mutant=None, record=False, **kw):
        live = self.property_id == 'C16'
        return connpool.run(tape, stratum=stratum, mutant=mutant, record=record, liveness=live)


SPECS = {'C15': ConnPoolSpec('C15'), 'C16': ConnPoolSpec('C16')}
