from sim.runner import Spec
from worlds import connpool


class ConnPoolSpec(Spec):
    world = 'connpool'
    shrink_groups = (('nclients', 'c_db', ('heal_after',)),)
    wall_cap = {'quick': 900, 'thorough': 7200}
    components = {
        'real': ['edb/server/connpool/pool.py (Pool, BasePool, Block: all of it)',
                 'edb/server/connpool/rolavg.py', 'edb/server/connpool/config.py',
                 'asyncio tasks/futures/sleep/gather (stock CPython 3.12)'],
        'stub': ['fake PostgreSQL: connect()/disconnect() callbacks with simulated latency and failures',
                 'client tasks and operator events (prune)',
                 'event loop: sim.loop.SimLoop (virtual time, stock ordering rules)',
                 'time.monotonic of pool.py -> simulated clock', 'logger -> null logger'],
        'model': [],
        'not_covered': ['edb/server/connpool/pool2.py + Rust pool (not buildable offline)', '_NaivePool (test-only class)'],
    }

    def __init__(self, pid):
        self.property_id = pid
        if pid == 'C15':
            self.strata = {
                'quick': [('core', 5), ('nofault', 2), ('disc_fail', 1), ('cancel', 1), ('cancel_woken', 1), ('prune_all', 1), ('prune_busy', 1),
                          ('tight', 2), ('tight_nofault', 1)],
                'thorough': [('core', 40), ('nofault', 16), ('disc_fail', 8), ('cancel', 8), ('cancel_woken', 8), ('prune_all', 8), ('prune_busy', 8),
                             ('tight', 16), ('tight_nofault', 8), ('big', 1)],
            }
            self.runs = {'quick': 200000, 'thorough': 4000000}
            self.rule = ('one run = one seeded world (1-10 databases, capacity 1-8, 1-40 clients, drawn latencies, '
                         'fault kinds enabled per run) executed to quiescence with invariants I1-I8 evaluated after every '
                         'event-loop callback; non-trivial = at least one acquire() was issued while another was pending; '
                         'distinct = distinct 64-bit digests of the id-free event sequence (acquire/acquired/release/connect/'
                         'disconnect/fail/prune/stall with client and database index) among non-trivial runs')
        else:
            self.strata = {
                'quick': [('core', 6), ('nofault', 3), ('disc_fail', 1), ('cancel', 1), ('cancel_woken', 1), ('prune_busy', 1),
                          ('tight', 8), ('tight_nofault', 4)],
                'thorough': [('core', 48), ('nofault', 24), ('disc_fail', 8), ('cancel', 8), ('cancel_woken', 8), ('prune_busy', 8),
                             ('tight', 64), ('tight_nofault', 32), ('big', 1)],
            }
            self.runs = {'quick': 600000, 'thorough': 6000000}
            self.rule = ('same world as C15; oracle = every acquire() resolves: violation iff an acquire is pending while the '
                         'environment is quiescent (faults stopped, no connect/disconnect in flight, every holder released, no '
                         'arrivals left) and either the loop is idle or `bound` simulated seconds pass without any request '
                         'completing; errors only from exhausted connect retries on that database; non-trivial/distinct as for C15')
        self.assumptions = [
            'SimLoop orders callbacks like asyncio.BaseEventLoop._run_once of CPython 3.12 and never permutes the ready queue',
            'the fake backend is the ground truth for open/connecting/closing connections',
            'connect/disconnect latencies are multiples of 5 ms up to 1 s; holders release after at most 0.3 s',
        ]

    def on_wall_timeout(self, frames):
        """A run that exceeds the wall cap while the interpreter is inside the
        pool's own code: some pool callback never returns, so no acquire() can
        ever be served.  That is a C16 violation (for C15 it stays a harness
        error: nothing can be said about safety)."""
        if self.property_id != 'C16':
            return None
        inside = [f for f in frames if '/edb/server/connpool/' in f]
        if not inside or '/edb/server/connpool/' not in ''.join(frames[-3:]):
            return None
        where = inside[-1].strip().splitlines()[0]
        v = {'property': 'C16', 'kind': 'L2', 'signature': 'hang:pool-callback-never-returns',
             'detail': f'the simulated run made no progress for the whole wall budget; the interpreter was inside '
                       f'the pool: {where}', 'step': -1, 'vtime': -1.0, 'no_shrink': True}
        return {'violations': [v], 'digest': 0, 'nontrivial': False, 'steps': 0, 'sim_time': 0.0,
                'faults': {}, 'probes': {'wall_timeout_inside_pool': 1}, 'served': 0, 'errored': 0,
                'config': None, 'internal_errors': [], 'trace': [], 'bound': 0.0}

    def run_world(self, tape, stratum, mutant=None, record=False, **kw):
        live = self.property_id == 'C16'
        big = stratum == 'big'      # up to 200 clients; faults as in 'core'
        tight = stratum.startswith('tight')
        base = {'big': 'core', 'tight': 'core', 'tight_nofault': 'nofault'}.get(stratum, stratum)
        return connpool.run(tape, stratum=base, mutant=mutant, record=record,
                            liveness=live, big=big, tight=tight)


SPECS = {'C15': ConnPoolSpec('C15'), 'C16': ConnPoolSpec('C16')}


# ---------------------------------------------------------------------------
# Sensitivity mutants (applied to the source text in memory, never on disk).
# A mutant whose `old` text is no longer in the source reports "unavailable".
# ---------------------------------------------------------------------------
F = 'edb/server/connpool/pool.py'

C15_MUTANTS = [
    {'name': 'connect_failure_keeps_capacity', 'expect': 'I2',
     'patches': [(F, """            self._failed_connects += 1
            self._cur_capacity -= 1
""", """            self._failed_connects += 1
""")]},
    {'name': 'room_for_new_conns_le', 'expect': 'I1',
     'patches': [(F, "room_for_new_conns = self._cur_capacity < self._max_capacity",
                  "room_for_new_conns = self._cur_capacity <= self._max_capacity")]},
    {'name': 'transfer_connects_before_disconnect', 'expect': 'I1',
     'patches': [(F, """        try:
            await self._disconnect(from_conn, from_block)
        except Exception:
            # _disconnect() has accounted for the failure and released the
            # capacity of the old connection either way. The target block is
            # still owed the connection we promised it in
            # _schedule_transfer() (to_block.pending_conns), so carry on.
            pass
        from_block.log_connection('transferred out')
        self._cur_capacity += 1
        await self._connect(to_block, started_at, 'transferred in')
""", """        self._cur_capacity += 1
        await self._connect(to_block, started_at, 'transferred in')
        try:
            await self._disconnect(from_conn, from_block)
        except Exception:
            pass
        from_block.log_connection('transferred out')
""")]},
    {'name': 'connect_releases_twice', 'expect': 'I3',
     'patches': [(F, """        # Release the connection to block waiters.
        block.release(conn)
""", """        # Release the connection to block waiters.
        block.release(conn)
        block.release(conn)
"""), (F, """        block = self._blocks[dbname]
        assert not block.conns[conn].in_use
        block.inc_acquire_counter()""", """        block = self._blocks[dbname]
        block.inc_acquire_counter()""")]},
    {'name': 'prune_takes_in_use_connections', 'expect': 'I4',
     'patches': [(F, """        conns = []
        while (conn := block.try_steal()) is not None:
            conns.append(conn)
""", """        conns = []
        while (conn := block.try_steal()) is not None:
            conns.append(conn)
        for conn, st in block.conns.items():
            if st.in_use:
                st.in_use = False
                conns.append(conn)
""")]},
    {'name': 'free_into_starving_reuses_connection', 'expect': 'I5',
     'patches': [(F, """        self._schedule_transfer(from_block, conn, to_block)

        self._log_to_snapshot(
            dbname=to_block.dbname,
            event=label,
            value=1,
        )
""", """        to_block.conns[conn] = from_block.conns.pop(conn)
        to_block.release(conn)
""")]},
    {'name': 'discard_decrements_capacity_twice', 'expect': 'I2',
     'patches': [(F, """        await self._disconnect(conn, block)
        block.log_connection("discarded")
""", """        await self._disconnect(conn, block)
        self._cur_capacity -= 1
        block.log_connection("discarded")
""")]},
    {'name': 'discard_disconnects_twice', 'expect': 'I6',
     'patches': [(F, """        await self._disconnect(conn, block)
        block.log_connection("discarded")
""", """        await self._disconnect(conn, block)
        self._cur_capacity += 1
        await self._disconnect(conn, block)
        block.log_connection("discarded")
""")]},
    {'name': 'discard_on_release_skips_disconnect', 'expect': 'I7',
     'patches': [(F, """                self._schedule_discard(block, conn)
                self._schedule_new_conn(block)
""", """                block.conns.pop(conn)
                self._schedule_new_conn(block)
""")]},
    {'name': 'new_conn_not_counted', 'expect': 'I1/I2',
     'patches': [(F, """        started_at = time.monotonic()
        self._cur_capacity += 1
        block.pending_conns += 1
""", """        started_at = time.monotonic()
        if block.pending_conns == 0:
            self._cur_capacity += 1
        block.pending_conns += 1
""")]},
    {'name': 'revert_fix_transfer_disconnect_failure', 'expect': 'I7', 'strata': ['disc_fail'],
     'reverts': 'C15-transfer-disconnect-failure',
     'patches': [(F, """        try:
            await self._disconnect(from_conn, from_block)
        except Exception:
            # _disconnect() has accounted for the failure and released the
            # capacity of the old connection either way. The target block is
            # still owed the connection we promised it in
            # _schedule_transfer() (to_block.pending_conns), so carry on.
            pass
        from_block.log_connection('transferred out')
""", """        await self._disconnect(from_conn, from_block)
        from_block.log_connection('transferred out')
""")]},
]

REVERT_A = {'name': 'revert_fix_feed_connless_blocks', 'expect': 'L2', 'reverts': 'C16-connless-blocks',
            'patches': [(F, """        self._feed_connless_blocks()

        # If we're managing""", """        # If we're managing""")]}
REVERT_B = {'name': 'revert_fix_prune_leak', 'expect': 'L2', 'reverts': 'C16-prune-leak', 'budget': 200000,
            'strata': ['core'],
            'patches': [(F, """        try:
            while not block.count_waiters() and block.pending_conns:
                # try_acquire, because it can get stolen
                if c := await block.try_acquire():
                    conns.append(c)
        finally:
            # If a pending connection fails, the wait above is aborted with
            # the connect error. The connections taken out of the stack so
            # far must still be closed, or they would stay in the block
            # forever: never idle, never in use, counted against the capacity.
            if conns:
                await asyncio.gather(
                    *(self._discard_conn(block, conn) for conn in conns),
                    return_exceptions=True
                )
""", """        while not block.count_waiters() and block.pending_conns:
            # try_acquire, because it can get stolen
            if c := await block.try_acquire():
                conns.append(c)

        if conns:
            await asyncio.gather(
                *(self._discard_conn(block, conn) for conn in conns),
                return_exceptions=True
            )
""")]}
REVERT_C = dict(C15_MUTANTS[-1], expect='L2', reverts='C16-transfer-disconnect-failure')
REVERT_D = {'name': 'revert_fix_cancel_lost_wakeup', 'expect': 'L2', 'strata': ['cancel', 'cancel_woken'],
            'reverts': 'C16-cancel-lost-wakeup', 'budget': 100000,
            'patches': [(F, """                    await waiter
                except BaseException:""", """                    await waiter
                except Exception:""")]}

C16_MUTANTS = [
    REVERT_A, REVERT_B, REVERT_C, REVERT_D,
    {'name': 'release_without_wakeup', 'expect': 'L1/L2',
     'patches': [(F, """        self.conns[conn].in_stack_since = time.monotonic()
        # and call the queue.
        self._wakeup_next_waiter()
""", """        self.conns[conn].in_stack_since = time.monotonic()
""")]},
    {'name': 'retry_exhaustion_leaves_waiters', 'expect': 'L2',
     'patches': [(F, """                block.abort_waiters(e)
            else:""", """                pass
            else:""")]},
    {'name': 'connect_failure_not_retried', 'expect': 'L2', 'budget': 400000,   # nearly healed by the feeder: ~15 hits per 10^6
     'patches': [(F, """                # will jump in and schedule more retries than what we expected.
                self._schedule_new_conn(block, event)
""", """                # will jump in and schedule more retries than what we expected.
                pass
""")]},
    {'name': 'abort_one_retry_early', 'expect': 'L3',
     'patches': [(F, """            if block.connect_failures_num > config.CONNECT_FAILURE_RETRIES:
                # Abort all waiters""", """            if block.connect_failures_num >= config.CONNECT_FAILURE_RETRIES:
                # Abort all waiters""")]},
    {'name': 'abort_waiters_of_all_blocks', 'expect': 'L3',
     'patches': [(F, """                block.abort_waiters(e)
            else:""", """                for b in self._blocks.values():
                    b.abort_waiters(e)
            else:""")]},
    {'name': 'tick_not_rescheduled', 'expect': 'L1/L2',
     'patches': [(F, """        if self._nacquires:
            # Schedule the next tick if we're still in Mode C/D.
            self._maybe_schedule_tick()

        now = time.monotonic()""", """        now = time.monotonic()""")]},
    {'name': 'woken_waiter_does_not_retry', 'expect': 'L3',
     'patches': [(F, """        while (c := await self.try_acquire(attempts=attempts)) is None:
            attempts += 1
        return c""", """        c = await self.try_acquire(attempts=attempts)
        return c""")]},
    {'name': 'wakeup_pops_two', 'expect': 'L2',
     'patches': [(F, """            if not waiter.done():
                waiter.set_result(None)
                break
""", """            if not waiter.done():
                waiter.set_result(None)
                if self.conn_waiters:
                    self.conn_waiters.popleft()
                break
""")]},
]

C16_MUTANTS.append(
    {'name': 'feeder_loops_forever', 'expect': 'L2 hang', 'budget': 3000,
     'patches': [(F, """            if self._cur_capacity < self._max_capacity:
                self._schedule_new_conn(block)
                continue
""", """            while self._cur_capacity < self._max_capacity and not block.count_conns() is None:
                if block.count_conns():
                    continue
                self._schedule_new_conn(block)
""")]})

SPECS['C15'].mutants = C15_MUTANTS
SPECS['C15'].quick_mutants = ['connect_failure_keeps_capacity', 'connect_releases_twice',
                              'room_for_new_conns_le', 'revert_fix_transfer_disconnect_failure']
SPECS['C16'].mutants = C16_MUTANTS
SPECS['C16'].quick_mutants = ['revert_fix_feed_connless_blocks', 'release_without_wakeup',
                              'revert_fix_cancel_lost_wakeup', 'abort_one_retry_early']
