from sim.runner import Spec
from worlds import cpool, cpool_island, rpool


class CPoolSpec(Spec):
    property_id = 'C17'
    world = 'cpool'
    isolated_mutants = True
    shrink_groups = (('nclients', 'client_tenant', ()),)
    wall_cap = {'quick': 1200, 'thorough': 7200}
    strata = {
        'quick': [('core', 5), ('nofault', 3), ('keyed', 1), ('cancel', 1), ('cancel_batch', 1), ('poolfault', 1),
                  ('remote', 3), ('remote_nofault', 2), ('remote_cancel', 1), ('remote_restart', 2), ('remote_keyed', 1)],
        'thorough': [('core', 5), ('nofault', 3), ('keyed', 1), ('cancel', 1), ('cancel_batch', 1), ('poolfault', 1),
                     ('remote', 3), ('remote_nofault', 2), ('remote_cancel', 1), ('remote_restart', 2), ('remote_keyed', 1)],
    }
    runs = {'quick': 64000, 'thorough': 2400000}
    components = {
        'real': ['edb/server/compiler_pool/pool.py (AbstractPool, BaseWorker, Worker, BaseLocalPool, FixedPool, SimpleAdaptivePool, MultiTenantPool, MultiTenantWorker, RemotePool, RemoteWorker)',
                 'edb/server/compiler_pool/server.py (MultiSchemaPool, Worker, ClientSchema/PickledState diffing, CompilerServerProtocol) in the remote strata',
                 'edb/server/compiler_pool/queue.py', 'edb/server/compiler_pool/state.py',
                 'edb/server/compiler_pool/amsg.py (Server, HubProtocol, HubConnection, MessageStream)',
                 'edb/server/compiler_pool/worker.py and multitenant_worker.py (one module instance per simulated process)',
                 'edb/server/compiler_pool/worker_proc.py: worker() request loop',
                 'edb.common.{debug,lru,...}, edb.server.{args,defines,metrics}, edb.pgsql.params'],
        'stub': cpool_island.STUB_DESCRIPTIONS,
        'model': ['simulated server state: versioned tokens per tenant/database; template process respawn policy'],
        'not_covered': [                        'server.py: MetricsProtocol, server_main()/click entry point',
                        'worker_proc.main() fork/supervise loop (modelled by the simulator)'],
    }
    rule = ('remote strata: 1-3 server instances each with a RemotePool, one remote compiler server (MultiSchemaPool), 1-3 '
            'multitenant workers, simulated links (latency, fragmentation, drops, refused reconnects); stratum remote_restart: the compiler-server '
            'process itself dies (with its workers and every link) and is started again 1-2 times per run while sessions hold transactions open; E3 is checked on both hops. '
            'Other strata: one run = one seeded world (pool kind fixed/adaptive/multitenant, 1-3 workers, 1-3 tenants, 1-3 databases, 1-5 '
            'concurrent clients x 2-11 requests, state mutations between requests, drawn service latencies, fault kinds enabled '
            'per run; stratum keyed: configuration values that compare equal by key only, like composite config values; cancel_batch: several requests per socket read; '
            'per run); oracles E1 (echo of what the compiler entry point received vs what the caller passed), E2 (errors '
            'attributable to injected faults), E3 (server belief == worker globals) after every completed call; non-trivial = at '
            'least one state mutation or two overlapping requests; distinct = distinct 64-bit digests of the abstract event '
            'sequence among non-trivial runs')
    assumptions = [
        'the compiler proper is an echo stub: the property is about which state reaches it, not what it computes',
        'worker processes are single-threaded and serve requests in arrival order; a killed worker loses its inbox',
        'SimLoop orders callbacks like asyncio.BaseEventLoop._run_once of CPython 3.12',
    ]

    def run_world(self, tape, stratum, mutant=None, record=False, **kw):
        if stratum.startswith('remote'):
            return rpool.run(tape, stratum=stratum, mutant=mutant, record=record)
        return cpool.run(tape, stratum=stratum, mutant=mutant, record=record)


SPEC = CPoolSpec()
SPEC.mutants = []
SPEC.quick_mutants = []


# ---------------------------------------------------------------------------
# sensitivity mutants (in-memory source patches)
# ---------------------------------------------------------------------------
PF = 'edb/server/compiler_pool/pool.py'
WF = 'edb/server/compiler_pool/worker.py'
MF = 'edb/server/compiler_pool/multitenant_worker.py'
WP = 'edb/server/compiler_pool/worker_proc.py'

SF = 'edb/server/compiler_pool/server.py'
REMOTE = ['remote', 'remote_nofault', 'remote_cancel']

_F4_NEW = """            if sync_state is not None:
                if isinstance(exc, state.FailedStateSync):
                    # A local worker has applied nothing; a remote compiler
                    # server has applied the state itself before one of its
                    # own workers failed to.  Either way, resend all next.
                    sync_state(uncertain=True)
                else:
                    sync_state()
"""
_F4_OLD = """            if (sync_state is not None and
                    not isinstance(exc, state.FailedStateSync)):
                sync_state()
"""
_F1A_NEW = """        # Take the client's state as of this very request, before anything is
        # awaited: by the time the workers are ready and one is available,
        # later requests of the same client may have synced newer state.
        client_schema = self._clients[client_id]
        await self._ready_evt.wait()
        worker = await self._acquire_worker(
            weighter=functools.partial(self._weighter, client_id)
        )
        try:
            diff = client_schema
"""
_F1A_OLD = """        worker = await self._acquire_worker(
            weighter=functools.partial(self._weighter, client_id)
        )
        try:
            diff = client_schema = self._clients[client_id]
"""
_F1A_LATE_READ_ONLY = """        await self._ready_evt.wait()
        worker = await self._acquire_worker(
            weighter=functools.partial(self._weighter, client_id)
        )
        try:
            diff = client_schema = self._clients[client_id]
"""
_F1B_NEW = """            if method_name != "__init_server__" and not is_client_call:
"""
_F1B_OLD = """            if method_name != "__init_server__":
"""
_F2A_NEW = """        # Only the call that is syncing state may end the sync.
        if self._sync_lock_owner is asyncio.current_task():
            self._sync_lock_owner = None
            self._sync_lock.release()
"""
_F2A_OLD = """        if self._sync_lock.locked():
            self._sync_lock.release()
"""
_F2B_NEW = """        await self._sync_lock.acquire()
        try:
            preargs, callback = await super()._compute_compile_preargs(*args)
        except BaseException:
            self._sync_lock.release()
            raise
        if callback:
            # held until _release_worker() of this call
            self._sync_lock_owner = asyncio.current_task()
        else:
            self._sync_lock.release()
        return preargs, callback
"""
_F2B_OLD = """        preargs, callback = await super()._compute_compile_preargs(*args)
        if callback:
            del preargs, callback
            await self._sync_lock.acquire()
            preargs, callback = await super()._compute_compile_preargs(*args)
            if not callback:
                self._sync_lock.release()
        return preargs, callback
"""
_F2B_NO_WAIT = """        preargs, callback = await super()._compute_compile_preargs(*args)
        if callback:
            del preargs, callback
            await self._sync_lock.acquire()
            try:
                preargs, callback = await super()._compute_compile_preargs(*args)
            except BaseException:
                self._sync_lock.release()
                raise
            if callback:
                self._sync_lock_owner = asyncio.current_task()
            else:
                self._sync_lock.release()
        return preargs, callback
"""
_F3A_NEW = """                worker.set_client_schema(client_id, client_schema)
                if method_name == "compile":
                    # ... and it may have replaced the worker's last
                    # transaction state with one we know nothing about.
                    worker._last_pickled_state = None
                exc = RuntimeError(
"""
_F3A_OLD = """                exc = RuntimeError(
"""
_F3B_NEW = """            worker._last_pickled_state = None
            resp = await worker.call(
                "compile_in_tx",
"""
_F3B_OLD = """            resp = await worker.call(
                "compile_in_tx",
"""

_OR_NEW_1 = """                            user_schema_pickle=(
                                worker_db.user_schema_pickle
                                if user_schema_pickle is None
                                else user_schema_pickle
                            ),
                            reflection_cache=(
                                worker_db.reflection_cache
                                if reflection_cache is None
                                else reflection_cache
                            ),
                            database_config=(
                                worker_db.database_config
                                if database_config is None
                                else database_config
                            ),
"""
_OR_OLD_1 = """                            user_schema_pickle=(
                                user_schema_pickle
                                or worker_db.user_schema_pickle
                            ),
                            reflection_cache=(
                                reflection_cache
                                or worker_db.reflection_cache
                            ),
                            database_config=(
                                database_config or worker_db.database_config
                            ),
"""

MUTANTS = [
    {'name': 'revert_fix_falsy_or', 'reverts': 'C17-falsy-or', 'strata': ['nofault'],
     'patches': [(PF, _OR_NEW_1, _OR_OLD_1, 0)]},
    {'name': 'revert_fix_partial_sync', 'reverts': 'C17-partial-sync', 'strata': ['core'],
     'patches': [(WF, """            if updates:
                db = db._replace(**updates)

        if global_schema is not None:
            global_schema_unpacked = pickle.loads(global_schema)
""", """            if updates:
                db = db._replace(**updates)
                DBS = DBS.set(dbname, db)

        if global_schema is not None:
            global_schema_unpacked = pickle.loads(global_schema)
"""),
                 # (since d5d69e8 a failed sync makes the server forget its record, which heals a
                 # half-applied sync as well: the two fixes are reverted together)
                 (PF, _F4_NEW, _F4_OLD)]},
    {'name': 'revert_fix_unread_request_acked', 'reverts': 'C17-unread-request-acked', 'strata': ['core'],
     'patches': [(WP, """                try:
                    raise state.FailedStateSync(
                        f'failed to read the request: '
                        f'{type(ex).__name__}({ex})') from ex
                except state.FailedStateSync as sync_ex:
                    ex = sync_ex
""", """""")]},
    {'name': 'revert_fix_status2_not_acked', 'reverts': 'C17-unserializable-result-not-acked', 'strata': ['core'],
     'patches': [(PF, """            if sync_state is not None:
                sync_state()
            exc = RuntimeError(
                'could not serialize result in worker subprocess')
""", """            exc = RuntimeError(
                'could not serialize result in worker subprocess')
""")]},
    {'name': 'revert_fix_pending_invalidation', 'reverts': 'C17-pending-invalidation', 'strata': ['core'],
     'patches': [(PF, """        if (
            tenant_schema is not None
            and client_id in worker.get_invalidation()
        ):""", """        if False:"""),
                 (PF, """            if (
                tenant_schema is None
                or client_id in worker.get_invalidation()
            ):""", """            if tenant_schema is None:""")]},
    {'name': 'revert_fix_last_state_forgotten', 'reverts': 'C17-reuse-last-state', 'strata': ['core'],
     'patches': [(PF, """            worker._last_pickled_state = None
            result = await worker.call(""", """            result = await worker.call("""),
                 (PF, """            worker._last_pickled_state = None
            units, new_pickled_state = await worker.call(""",
                  """            units, new_pickled_state = await worker.call(""", 0)]},
    {'name': 'revert_fix_uncertain_outcome', 'reverts': 'C17-lost-acknowledgement', 'strata': ['cancel', 'poolfault'],
     'patches': [(PF, """            if sync_state is not None:
                sync_state(uncertain=True)
            raise
""", """            raise
""")]},
    # --- other realistic breakages (DESIGN.md appendix B) -------------------
    {'name': 'ack_on_failed_state_sync',
     'patches': [(PF, _F4_NEW, """            if sync_state is not None:
                sync_state()
""")]},
    {'name': 'never_ack_on_success',
     'patches': [(PF, """        if status == 0:
            if sync_state is not None:
                sync_state()
            return data[0]""", """        if status == 0:
            return data[0]""")]},
    {'name': 'compare_database_config_by_equality',
     'patches': [(PF, """            if worker_db.database_config is not database_config:
                preargs.append(_pickle_memoized(database_config))
                to_update['database_config'] = database_config""",
                  """            if worker_db.database_config != database_config:
                preargs.append(_pickle_memoized(database_config))
                to_update['database_config'] = database_config""")],
     'equivalent_ok': True},
    {'name': 'global_schema_never_resent',
     'patches': [(PF, """            if worker._global_schema_pickle is not global_schema_pickle:
                preargs.append(global_schema_pickle)
                to_update['global_schema_pickle'] = global_schema_pickle
            else:
                preargs.append(None)""", """            preargs.append(None)""")]},
    {'name': 'ack_drops_reflection_cache',
     'patches': [(PF, """                preargs.append(_pickle_memoized(reflection_cache))
                to_update['reflection_cache'] = reflection_cache
            else:""", """                preargs.append(_pickle_memoized(reflection_cache))
            else:""")]},
    {'name': 'worker_sync_ignores_global_schema',
     'patches': [(WF, """    if global_schema is not None:
        GLOBAL_SCHEMA = global_schema_unpacked
""", """""")]},
    {'name': 'worker_reuses_last_state_without_marker',
     'patches': [(WF, """    if cstate == state.REUSE_LAST_STATE_MARKER:
        assert LAST_STATE is not None
        cstate = LAST_STATE
    else:""", """    if cstate == state.REUSE_LAST_STATE_MARKER or LAST_STATE is not None:
        assert LAST_STATE is not None
        cstate = LAST_STATE
    else:""")]},
    {'name': 'compile_in_tx_sends_dbname_for_other_root',
     'patches': [(PF, """            elif worker_db.user_schema_pickle is user_schema_pickle:
                user_schema_pickle = None
            else:
                dbname = None""", """            else:
                user_schema_pickle = None""")]},
    {'name': 'mt_diff_ignores_reflection_cache',
     'patches': [(PF, """                if worker_db.reflection_cache is not reflection_cache:
                    to_update["reflection_cache"] = reflection_cache
""", """""")]},
    {'name': 'mt_compile_in_tx_references_db_with_other_root',
     'patches': [(PF, """                elif worker_db.user_schema_pickle is user_schema_pickle:
                    # Avoid sending the root user schema because the worker has""",
                  """                elif True:
                    # Avoid sending the root user schema because the worker has""")]},
    {'name': 'mt_sync_keeps_old_instance_config',
     'patches': [(MF, """                if pickled_schema.instance_config is not None:
                    updates["instance_config"] = pickle.loads(
                        pickled_schema.instance_config
                    )
""", """""")]},
    {'name': 'queue_condition_ignored_marker_kept',
     'patches': [(PF, """        if worker._last_pickled_state is pickled_state:
            # Since we know that this particular worker already has the""",
                  """        if worker._last_pickled_state is not None:
            # Since we know that this particular worker already has the""")]},
    # --- remote mode: RemotePool <-> compiler_pool/server.py <-> multitenant workers ---------
    {'name': 'revert_fix_remote_request_state', 'reverts': 'C17-remote-request-state', 'strata': REMOTE,
     'patches': [(SF, _F1A_NEW, _F1A_OLD), (SF, _F1B_NEW, _F1B_OLD)]},
    {'name': 'revert_fix_remote_sync_lock', 'reverts': 'C17-remote-sync-lock', 'strata': REMOTE,
     'patches': [(PF, _F2A_NEW, _F2A_OLD), (PF, _F2B_NEW, _F2B_OLD)]},
    {'name': 'revert_fix_remote_unserializable_result', 'reverts': 'C17-remote-unserializable-result',
     'strata': ['remote', 'remote_cancel'], 'patches': [(SF, _F3A_NEW, _F3A_OLD)]},
    {'name': 'revert_fix_remote_last_state', 'reverts': 'C17-remote-reuse-last-state',
     'strata': ['remote', 'remote_cancel'], 'patches': [(SF, _F3B_NEW, _F3B_OLD)]},
    {'name': 'revert_fix_failed_sync_uncertain', 'reverts': 'C17-remote-failed-sync', 'strata': ['remote', 'remote_cancel'],
     'patches': [(PF, _F4_NEW, _F4_OLD)]},
    # the two halves of the request-state fix, one at a time
    {'name': 'revert_fix_pickle_memoized_by_identity', 'reverts': 'C17-pickle-memoized-by-equality', 'strata': ['keyed'],
     'patches': [(PF, """def _pickle_memoized(schema):
    # Memoize by identity""", """@functools.lru_cache()
def _pickle_memoized(schema):
    return pickle.dumps(schema, -1)


def _pickle_memoized_by_identity(schema):
    # Memoize by identity""")]},
    {'name': 'revert_fix_remote_state_id_base', 'reverts': 'C17-remote-server-restart-state-id', 'strata': ['remote_restart'],
     'patches': [(SF, """_tx_state_id_seq = secrets.randbits(62)
""", """_tx_state_id_seq = 0
""")]},
    {'name': 'remote_server_reads_client_state_after_wait', 'strata': REMOTE,
     'patches': [(SF, _F1A_NEW, _F1A_LATE_READ_ONLY)]},
    {'name': 'remote_server_gate_lets_requests_overtake', 'strata': REMOTE,
     'patches': [(SF, _F1B_NEW, _F1B_OLD), (SF, """        client_schema = self._clients[client_id]
        await self._ready_evt.wait()
""", """        client_schema = self._clients[client_id]
""")]},
    # the two halves of the sync-lock fix
    {'name': 'remote_any_call_ends_the_sync', 'strata': REMOTE, 'patches': [(PF, _F2A_NEW, _F2A_OLD)]},
    {'name': 'remote_bare_call_does_not_wait_for_sync', 'strata': REMOTE, 'patches': [(PF, _F2B_NEW, _F2B_NO_WAIT)]},
    {'name': 'remote_server_sync_ignores_database_config', 'strata': REMOTE,
     'patches': [(SF, """            if database_config is not None:
                updates["database_config"] = database_config
""", """""")]},
    {'name': 'remote_server_acks_failed_worker_sync', 'strata': ['remote', 'remote_cancel'],
     'patches': [(SF, """                if not isinstance(exc, state_mod.FailedStateSync):
                    worker.set_client_schema(client_id, client_schema)
""", """                worker.set_client_schema(client_id, client_schema)
""")]},
    {'name': 'remote_client_diff_misses_global_schema', 'strata': REMOTE,
     'patches': [(SF, """        if self.global_schema is not other.global_schema:
            global_schema = self.global_schema
""", """""")]},
]
SPEC.mutants = [m for m in MUTANTS if not m.get('equivalent_ok')]
SPEC.quick_mutants = ['revert_fix_falsy_or', 'revert_fix_partial_sync', 'revert_fix_last_state_forgotten',
                      'never_ack_on_success', 'global_schema_never_resent',
                      'revert_fix_remote_request_state', 'revert_fix_remote_sync_lock', 'revert_fix_remote_last_state']
