from sim.runner import Spec
from worlds import cpool, cpool_island


class CPoolSpec(Spec):
    property_id = 'C17'
    world = 'cpool'
    isolated_mutants = True
    shrink_groups = (('nclients', 'client_tenant', ()),)
    wall_cap = {'quick': 1200, 'thorough': 7200}
    strata = {
        'quick': [('core', 5), ('nofault', 3), ('cancel', 1), ('poolfault', 1)],
        'thorough': [('core', 5), ('nofault', 3), ('cancel', 1), ('poolfault', 1)],
    }
    runs = {'quick': 40000, 'thorough': 1500000}
    components = {
        'real': ['edb/server/compiler_pool/pool.py (AbstractPool, BaseWorker, Worker, BaseLocalPool, FixedPool, SimpleAdaptivePool, MultiTenantPool, MultiTenantWorker)',
                 'edb/server/compiler_pool/queue.py', 'edb/server/compiler_pool/state.py',
                 'edb/server/compiler_pool/amsg.py (Server, HubProtocol, HubConnection, MessageStream)',
                 'edb/server/compiler_pool/worker.py and multitenant_worker.py (one module instance per simulated process)',
                 'edb/server/compiler_pool/worker_proc.py: worker() request loop',
                 'edb.common.{debug,lru,...}, edb.server.{args,defines,metrics}, edb.pgsql.params'],
        'stub': cpool_island.STUB_DESCRIPTIONS,
        'model': ['simulated server state: versioned tokens per tenant/database; template process respawn policy'],
        'not_covered': ['RemotePool, compiler_pool/server.py (remote compiler server)', 'worker_proc.main() fork/supervise loop (modelled by the simulator)'],
    }
    rule = ('one run = one seeded world (pool kind fixed/adaptive/multitenant, 1-3 workers, 1-3 tenants, 1-3 databases, 1-5 '
            'concurrent clients x 2-11 requests, state mutations between requests, drawn service latencies, fault kinds enabled '
            'per run); oracles E1 (echo of what the compiler entry point received vs what the caller passed), E2 (errors '
            'attributable to injected faults), E3 (server belief == worker globals) after every completed call; non-trivial = at '
            'least one state mutation or two overlapping requests; distinct = distinct 64-bit digests of the abstract event '
            'sequence among non-trivial runs')
    assumptions = [
        'the compiler proper is an echo stub: the property is about which state reaches it, not what it computes',
        'worker processes are single-threaded and serve requests in arrival order; a killed worker loses its inbox',
        'SimLoop orders callbacks like asyncio.BaseEventLoop._run_once of CPython 3.12',
    ]

    def run_world(self, tape, stratum, mutant=None, record=False, **kw):
        return cpool.run(tape, stratum=stratum, mutant=mutant, record=record)


SPEC = CPoolSpec()
SPEC.mutants = []
SPEC.quick_mutants = []


# ---------------------------------------------------------------------------
# sensitivity mutants (in-memory source patches)
# ---------------------------------------------------------------------------
PF = 'edb/server/compiler_pool/pool.py'
WF = 'edb/server/compiler_pool/worker.py'
MF = 'edb/server/compiler_pool/multitenant_worker.py'
WP = 'edb/server/compiler_pool/worker_proc.py'

_OR_NEW_1 = """                            user_schema_pickle=(
                                worker_db.user_schema_pickle
                                if user_schema_pickle is None
                                else user_schema_pickle
                            ),
                            reflection_cache=(
                                worker_db.reflection_cache
                                if reflection_cache is None
                                else reflection_cache
                            ),
                            database_config=(
                                worker_db.database_config
                                if database_config is None
                                else database_config
                            ),
"""
_OR_OLD_1 = """                            user_schema_pickle=(
                                user_schema_pickle
                                or worker_db.user_schema_pickle
                            ),
                            reflection_cache=(
                                reflection_cache
                                or worker_db.reflection_cache
                            ),
                            database_config=(
                                database_config or worker_db.database_config
                            ),
"""

MUTANTS = [
    {'name': 'revert_fix_falsy_or', 'reverts': 'C17-falsy-or', 'strata': ['nofault'],
     'patches': [(PF, _OR_NEW_1, _OR_OLD_1, 0)]},
    {'name': 'revert_fix_partial_sync', 'reverts': 'C17-partial-sync', 'strata': ['core'],
     'patches': [(WF, """            if updates:
                db = db._replace(**updates)

        if global_schema is not None:
            global_schema_unpacked = pickle.loads(global_schema)
""", """            if updates:
                db = db._replace(**updates)
                DBS = DBS.set(dbname, db)

        if global_schema is not None:
            global_schema_unpacked = pickle.loads(global_schema)
""")]},
    {'name': 'revert_fix_unread_request_acked', 'reverts': 'C17-unread-request-acked', 'strata': ['core'],
     'patches': [(WP, """                try:
                    raise state.FailedStateSync(
                        f'failed to read the request: '
                        f'{type(ex).__name__}({ex})') from ex
                except state.FailedStateSync as sync_ex:
                    ex = sync_ex
""", """""")]},
    {'name': 'revert_fix_status2_not_acked', 'reverts': 'C17-unserializable-result-not-acked', 'strata': ['core'],
     'patches': [(PF, """            if sync_state is not None:
                sync_state()
            exc = RuntimeError(
                'could not serialize result in worker subprocess')
""", """            exc = RuntimeError(
                'could not serialize result in worker subprocess')
""")]},
    {'name': 'revert_fix_pending_invalidation', 'reverts': 'C17-pending-invalidation', 'strata': ['core'],
     'patches': [(PF, """        if (
            tenant_schema is not None
            and client_id in worker.get_invalidation()
        ):""", """        if False:"""),
                 (PF, """            if (
                tenant_schema is None
                or client_id in worker.get_invalidation()
            ):""", """            if tenant_schema is None:""")]},
    {'name': 'revert_fix_last_state_forgotten', 'reverts': 'C17-reuse-last-state', 'strata': ['core'],
     'patches': [(PF, """            worker._last_pickled_state = None
            result = await worker.call(""", """            result = await worker.call("""),
                 (PF, """            worker._last_pickled_state = None
            units, new_pickled_state = await worker.call(""",
                  """            units, new_pickled_state = await worker.call(""", 0)]},
    {'name': 'revert_fix_uncertain_outcome', 'reverts': 'C17-lost-acknowledgement', 'strata': ['cancel', 'poolfault'],
     'patches': [(PF, """            if sync_state is not None:
                sync_state(uncertain=True)
            raise
""", """            raise
""")]},
    # --- other realistic breakages (DESIGN.md appendix B) -------------------
    {'name': 'ack_on_failed_state_sync',
     'patches': [(PF, """            if (sync_state is not None and
                    not isinstance(exc, state.FailedStateSync)):
                sync_state()""", """            if sync_state is not None:
                sync_state()""")]},
    {'name': 'never_ack_on_success',
     'patches': [(PF, """        if status == 0:
            if sync_state is not None:
                sync_state()
            return data[0]""", """        if status == 0:
            return data[0]""")]},
    {'name': 'compare_database_config_by_equality',
     'patches': [(PF, """            if worker_db.database_config is not database_config:
                preargs.append(_pickle_memoized(database_config))
                to_update['database_config'] = database_config""",
                  """            if worker_db.database_config != database_config:
                preargs.append(_pickle_memoized(database_config))
                to_update['database_config'] = database_config""")],
     'equivalent_ok': True},
    {'name': 'global_schema_never_resent',
     'patches': [(PF, """            if worker._global_schema_pickle is not global_schema_pickle:
                preargs.append(global_schema_pickle)
                to_update['global_schema_pickle'] = global_schema_pickle
            else:
                preargs.append(None)""", """            preargs.append(None)""")]},
    {'name': 'ack_drops_reflection_cache',
     'patches': [(PF, """                preargs.append(_pickle_memoized(reflection_cache))
                to_update['reflection_cache'] = reflection_cache
            else:""", """                preargs.append(_pickle_memoized(reflection_cache))
            else:""")]},
    {'name': 'worker_sync_ignores_global_schema',
     'patches': [(WF, """    if global_schema is not None:
        GLOBAL_SCHEMA = global_schema_unpacked
""", """""")]},
    {'name': 'worker_reuses_last_state_without_marker',
     'patches': [(WF, """    if cstate == state.REUSE_LAST_STATE_MARKER:
        assert LAST_STATE is not None
        cstate = LAST_STATE
    else:""", """    if cstate == state.REUSE_LAST_STATE_MARKER or LAST_STATE is not None:
        assert LAST_STATE is not None
        cstate = LAST_STATE
    else:""")]},
    {'name': 'compile_in_tx_sends_dbname_for_other_root',
     'patches': [(PF, """            elif worker_db.user_schema_pickle is user_schema_pickle:
                user_schema_pickle = None
            else:
                dbname = None""", """            else:
                user_schema_pickle = None""")]},
    {'name': 'mt_diff_ignores_reflection_cache',
     'patches': [(PF, """                if worker_db.reflection_cache is not reflection_cache:
                    to_update["reflection_cache"] = reflection_cache
""", """""")]},
    {'name': 'mt_compile_in_tx_references_db_with_other_root',
     'patches': [(PF, """                elif worker_db.user_schema_pickle is user_schema_pickle:
                    # Avoid sending the root user schema because the worker has""",
                  """                elif True:
                    # Avoid sending the root user schema because the worker has""")]},
    {'name': 'mt_sync_keeps_old_instance_config',
     'patches': [(MF, """                if pickled_schema.instance_config is not None:
                    updates["instance_config"] = pickle.loads(
                        pickled_schema.instance_config
                    )
""", """""")]},
    {'name': 'queue_condition_ignored_marker_kept',
     'patches': [(PF, """        if worker._last_pickled_state is pickled_state:
            # Since we know that this particular worker already has the""",
                  """        if worker._last_pickled_state is not None:
            # Since we know that this particular worker already has the""")]},
]
SPEC.mutants = [m for m in MUTANTS if not m.get('equivalent_ok')]
SPEC.quick_mutants = ['revert_fix_falsy_or', 'revert_fix_partial_sync', 'revert_fix_last_state_forgotten',
                      'never_ack_on_success', 'global_schema_never_resent']
