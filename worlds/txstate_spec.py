from sim.runner import Spec
from worlds import txstate, tx_island


class TxSpec(Spec):
    property_id = 'C09'
    world = 'txstate'
    isolated_mutants = True
    shrink_groups = (('nsteps', 'stmt_kind', ()), ('nsteps_long', 'stmt_kind', ()), ('nsteps_deep', 'stmt_kind', ()))
    wall_cap = {'quick': 1200, 'thorough': 7200}
    strata = {
        'quick': [('core', 8), ('nofault', 4), ('deep', 4), ('migration', 6), ('migration_nofault', 3), ('exotic', 2),
                  ('refusal', 1), ('pooled', 1), ('pooled_nofault', 1)],
        'thorough': [('core', 8), ('nofault', 4), ('deep', 4), ('migration', 6), ('migration_nofault', 3), ('exotic', 2),
                     ('refusal', 1), ('pooled', 2), ('pooled_nofault', 1)],
    }
    runs = {'quick': 300000, 'thorough': 5000000}
    observe_only_strata = ('exotic', 'refusal')
    components = {
        'real': ['edb/server/compiler/dbstate.py: Transaction, CompilerConnectionState (incl. __getstate__/__setstate__, sync_tx, sync_to_savepoint)',
                 'edb/server/compiler/compiler.py: Compiler.compile, compile_in_tx, _try_compile_rollback, compile(), _try_compile, _try_compile_ast, '
                 '_compile_dispatch_ql, _compile_ql_transaction, _compile_ql_sess_state, _make_query_unit, _check_force_database_error, _get_config_val',
                 'edb/server/compiler/ddl.py: compile_and_apply_ddl_stmt / _compile_and_apply_ddl_stmt (incl. the log-DDL-as-migration wrapping and the '
                 'migration-block and rewrite-block branches), compile_dispatch_ql_migration, _start_migration, _populate_migration, _commit_migration, _abort_migration, '
                 '_start_migration_rewrite, _commit_migration_rewrite, _abort_migration_rewrite '
                 '(above a stand-in for the schema layer and the SQL generation)',
                 'edb.edgeql.ast / qltypes, edb.errors, edb/server/compiler/enums.py'],
        'stub': tx_island.STUBS,
        'model': ['server side: transcription of dbview.pyx (start, on_success, on_error, declare_savepoint, rollback_tx_to_savepoint, abort_tx, '
                  '_check_in_tx_error, _compile), execute.pyx (execute) and binary.pyx (_execute_rollback, error handling); Cython cannot be built here',
                  'backend: PostgreSQL transaction/savepoint semantics over (schema tag+modules, aliases, session config)'],
        'pooled_strata': ['strata pooled / pooled_nofault: 1-3 concurrent sessions (one database each) whose compiles go through the REAL '
                          'compiler pool (pool.py FixedPool / SimpleAdaptivePool, queue.py, amsg.py hub) to REAL worker.py instances '
                          '(1-3 simulated processes, real worker_proc.worker() loop) running the real compiler transaction code; worker '
                          'crashes, slow workers, template restarts; rpc.CompilationRequest (de)serialisation is an in-process table'],
        'not_covered': ['DESCRIBE CURRENT MIGRATION / ALTER CURRENT MIGRATION REJECT PROPOSED, RESET SCHEMA, migration commands inside scripts and in the pooled strata',
                        'the migration log itself (parent checks): get_last_migration() is always None', 'SQL-protocol transaction state',
                        'the server-side compiled-query cache'],
    }
    rule = ('one run = one seeded history of 3-40 client messages (START/COMMIT/ROLLBACK, DECLARE/RELEASE/ROLLBACK TO SAVEPOINT a|b, DDL adding or '
            'dropping module m1-m3, SET ALIAS / SET MODULE / RESET ALIAS, CONFIGURE SESSION, queries, scripts containing transaction control) with '
            'compile-time rejections and execution-time failures placed by the tape, the state blob routed either as the same live object or through '
            'pickle; oracles T1 (what a query is compiled against), T2 (outcome equivalence with PostgreSQL semantics), T3 (unit fields), T4 (baseline '
            'after COMMIT/ROLLBACK), T5 (sync_tx finds every position the server reports); strata migration / migration_nofault add START MIGRATION TO '
            '<target>, DDL inside the block, POPULATE / COMMIT (also rejected when the generated CREATE MIGRATION is applied, also failing in the backend) / '
            'ABORT MIGRATION (also in an aborted transaction), START / COMMIT / ABORT MIGRATION REWRITE with START MIGRATION TO COMMITTED SCHEMA inside, started outside or inside a transaction block, mixed with everything above: the model '
            'treats the block as an overlay none of whose DDL has reached the backend; the outcome of the migration commands themselves is only '
            'observed (the property does not state it), T1-T5 apply to everything else; stratum deep = 10-40 messages inside one transaction; '
            'stratum refusal (observe-only) = a compiled statement refused by the server before execution; non-trivial = at least one message inside a transaction '
            'block; distinct = distinct digests of the (statement, argument, outcome, position) sequence')
    assumptions = [
        'the server half (dbview.pyx / execute.pyx / binary.pyx) is a transcription, not the real Cython code',
        'schema, DDL and configuration semantics are opaque tags; only transaction/savepoint behaviour is real',
    ]

    def run_world(self, tape, stratum, mutant=None, record=False, **kw):
        if stratum.startswith('pooled'):
            from worlds import txpool
            return txpool.run(tape, stratum=stratum, mutant=mutant, record=record)
        return txstate.run(tape, stratum=stratum, mutant=mutant, record=record)

    def render_sample(self, result, tape):
        return {'config': result.get('config'), 'history': result.get('history')}


SPEC = TxSpec()
SPEC.mutants = []
SPEC.quick_mutants = []


DS = 'edb/server/compiler/dbstate.py'
CP = 'edb/server/compiler/compiler.py'
DD = 'edb/server/compiler/ddl.py'

MUTANTS = [
    {'name': 'commit_publishes_initial_state',
     'patches': [(DS, """        latest_state = self._current_tx._current
""", """        latest_state = self._current_tx._state0
""")]},
    {'name': 'declare_unit_without_sp_id',
     'patches': [(CP, """        sp_name=sp_name,
        sp_id=sp_id,
        feature_used_metrics=(""", """        sp_name=sp_name,
        sp_id=None,
        feature_used_metrics=(""")]},
    {'name': 'commit_allowed_outside_block',
     'patches': [(DS, """        if self._current_tx.is_implicit():
            raise errors.TransactionError("cannot commit: not in transaction")
""", """""")]},
    {'name': 'start_allowed_inside_block',
     'patches': [(DS, """        else:
            raise errors.TransactionError("already in transaction")""", """        else:
            pass""")]},
    {'name': 'savepoint_snapshots_initial_state',
     'patches': [(DS, """        sp_state = self._current._replace(id=sp_id, name=name)""",
                  """        sp_state = self._state0._replace(id=sp_id, name=name)""")]},
    {'name': 'pickled_state_loses_savepoint_log',
     'patches': [(DS, """        return self._savepoints_log, self._current_tx, self._tx_count""",
                  """        return {}, self._current_tx, self._tx_count""")]},
    {'name': 'set_alias_skips_module_check',
     'patches': [(CP, """        try:
            schema.get_global(s_mod.Module, ql.decl.module)
        except errors.InvalidReferenceError:
            raise errors.UnknownModuleError(
                f'module {ql.decl.module!r} does not exist'
            ) from None
""", """""")]},
    {'name': 'commit_unit_never_carries_schema',
     'patches': [(CP, """        final_user_schema = cur_tx.get_user_schema_if_updated()""",
                  """        final_user_schema = None""")]},
    # a pool-side change whose effect is a C09 violation (two components): without it a
    # compile that raised half-way leaves a mutated live state that the same worker reuses
    {'name': 'pool_reuses_last_state_after_failed_call', 'strata': ['pooled'], 'budget': 60000,
     'patches': [('edb/server/compiler_pool/pool.py', """            worker._last_pickled_state = None
            result = await worker.call(""", """            result = await worker.call("""),
                 ('edb/server/compiler_pool/pool.py', """            worker._last_pickled_state = None
            units, new_pickled_state = await worker.call(""",
                  """            units, new_pickled_state = await worker.call(""", 0)]},
    # two cooperating sites: each alone is healed by the other mechanism
    {'name': 'rollback_to_does_not_restore_and_no_resync',
     'patches': [(DS, """            if sp.name == name:
                self._current = sp
                break

            sp_ids_to_erase.append(sp.id)""", """            if sp.name == name:
                break

            sp_ids_to_erase.append(sp.id)"""),
                 (CP, """        else:
            state.sync_tx(txid)
""", """        else:
            pass
""")]},
    {'name': 'rollback_to_picks_oldest_namesake_and_no_resync',
     'patches': [(DS, """        sp_ids_to_erase = []
        for sp in reversed(self._savepoints.values()):
            if sp.name == name:
                self._current = sp
                break
""", """        sp_ids_to_erase = []
        for sp in self._savepoints.values():
            if sp.name == name:
                self._current = sp
                break
"""),
                 (CP, """        else:
            state.sync_tx(txid)
""", """        else:
            pass
""")]},
    {'name': 'resync_does_not_restore_snapshot_and_rollback_to_neither',
     'patches': [(DS, """        self._current_tx = sp.tx
        self._current_tx._current = sp
""", """        self._current_tx = sp.tx
"""),
                 (DS, """            if sp.name == name:
                self._current = sp
                break

            sp_ids_to_erase.append(sp.id)""", """            if sp.name == name:
                break

            sp_ids_to_erase.append(sp.id)""")]},
    {'name': 'ddl_in_block_updates_initial_state_too',
     'patches': [(DS, """        self._current = self._current._replace(
            local_user_schema=user_schema,
            global_schema=global_schema,
        )
""", """        self._current = self._current._replace(
            local_user_schema=user_schema,
            global_schema=global_schema,
        )
        if not self._implicit and not self._savepoints:
            self._state0 = self._current
""")]},
    # global-schema (role) DDL: the COMMIT unit must carry the block's final global schema,
    # and a rollback to a savepoint must restore it with the rest of the snapshot
    {'name': 'commit_unit_never_carries_global_schema',
     'patches': [(CP, """        final_global_schema = cur_tx.get_global_schema_if_updated()""",
                  """        final_global_schema = None""")]},
    {'name': 'global_schema_update_dropped_in_block',
     'patches': [(DS, """        self._current = self._current._replace(
            local_user_schema=user_schema,
            global_schema=global_schema,
        )
""", """        self._current = self._current._replace(
            local_user_schema=user_schema,
            global_schema=global_schema if self._implicit else self._current.global_schema,
        )
""")]},
    # ---- migration blocks (compiler/ddl.py is loaded for real) ----
    {'name': 'abort_migration_does_not_restore_the_schema', 'strata': ['migration', 'migration_nofault'],
     'patches': [(DD, """    if mstate.initial_savepoint:
        current_tx.abort_migration(mstate.initial_savepoint)
        sql = NIL_QUERY
        tx_action = None
    else:
        tx_cmd = qlast.RollbackTransaction()
        tx_query = compiler._compile_ql_transaction(ctx, tx_cmd)
        sql = tx_query.sql
        tx_action = tx_query.action

    current_tx.update_migration_state(None)
    return dbstate.MigrationControlQuery(""", """    if mstate.initial_savepoint:
        sql = NIL_QUERY
        tx_action = None
    else:
        tx_cmd = qlast.RollbackTransaction()
        tx_query = compiler._compile_ql_transaction(ctx, tx_cmd)
        sql = tx_query.sql
        tx_action = tx_query.action

    current_tx.update_migration_state(None)
    return dbstate.MigrationControlQuery(""")]},
    {'name': 'migration_savepoint_named_like_a_user_savepoint', 'strata': ['migration', 'migration_nofault'],
     'patches': [(DS, """        name = str(uuid.uuid4())
        self._declare_savepoint(name)""", """        name = 'a'
        self._declare_savepoint(name)""")]},
    {'name': 'ddl_in_migration_block_not_recorded', 'strata': ['migration', 'migration_nofault'],
     'patches': [(DD, """        mstate = mstate._replace(
            accepted_cmds=mstate.accepted_cmds + (stmt,),
        )

        last_proposed = mstate.last_proposed""", """        last_proposed = mstate.last_proposed""")]},
    {'name': 'abort_migration_unit_not_flagged', 'strata': ['migration', 'migration_nofault'],
     'patches': [(CP, """        elif comp.action == dbstate.MigrationAction.ABORT:
            unit.tx_abort_migration = True""", """        elif comp.action == dbstate.MigrationAction.ABORT:
            pass""")]},
    {'name': 'commit_migration_keeps_the_block_open', 'strata': ['migration', 'migration_nofault'],
     'patches': [(DD, """    current_tx.update_schema(mstate.initial_schema)
    current_tx.update_migration_state(None)
""", """    current_tx.update_schema(mstate.initial_schema)
""", 0)]},
    {'name': 'revert_fix_commit_in_rewrite_block', 'reverts': 'C09-commit-inside-rewrite-block',
     'strata': ['migration', 'migration_nofault'],
     'patches': [(CP, """        ctx._assert_not_in_migration_block(ql)
        # The schema a migration rewrite is rebuilding exists only here;
        # committing it would publish it as the schema of the database.
        ctx._assert_not_in_migration_rewrite_block(ql)
""", """        ctx._assert_not_in_migration_block(ql)
""")]},
    # ---- migration rewrite blocks ----
    {'name': 'abort_rewrite_does_not_restore_the_schema', 'strata': ['migration', 'migration_nofault'],
     'patches': [(DD, """    if mrstate.initial_savepoint:
        current_tx.abort_migration(mrstate.initial_savepoint)
        sql = NIL_QUERY""", """    if mrstate.initial_savepoint:
        sql = NIL_QUERY""")]},
    {'name': 'commit_rewrite_keeps_the_scratch_schema', 'strata': ['migration', 'migration_nofault'],
     'patches': [(DD, """    schema = mrstate.target_schema
    current_tx.update_schema(schema)
    current_tx.update_migration_rewrite_state(None)
""", """    schema = mrstate.target_schema
    current_tx.update_migration_rewrite_state(None)
""")]},
]
SPEC.mutants = MUTANTS
SPEC.quick_mutants = ['commit_publishes_initial_state', 'savepoint_snapshots_initial_state',
                      'commit_allowed_outside_block', 'rollback_to_does_not_restore_and_no_resync',
                      'pickled_state_loses_savepoint_log', 'abort_migration_does_not_restore_the_schema']
