"""C17, remote mode: three tiers in one simulated process.

  * K server instances ("tenants"), each with its own REAL ``RemotePool``
    (edb/server/compiler_pool/pool.py) and its own database index state;
  * ONE REAL remote compiler server: ``MultiSchemaPool`` and one
    ``CompilerServerProtocol`` per client connection
    (edb/server/compiler_pool/server.py);
  * 1-3 simulated worker processes running the REAL multitenant_worker.py
    through the real worker_proc.worker() loop (machinery of worlds/cpool.py).

The network between instances and the compiler server is simulated: per
direction FIFO byte streams with drawn latencies and fragmentation, links that
drop at drawn instants (bytes in flight are lost, both ends learn about it at
different times), refused reconnects.  Worker crashes, injected compile errors
and failing (un)pickling inside the workers come from the base world.

Oracles: E1 (what the worker-side compiler entry point received == what the
caller passed to RemotePool.compile*), E2 (errors attributable to injected
faults), E3 on both hops (instance's belief about the compiler server ==
what the compiler server holds for that client; compiler server's belief
about a worker == what that worker's module holds).
"""
from __future__ import annotations

import asyncio
import collections
import pickle as real_pickle

import immutables

from sim.loop import HarnessError
from worlds import cpool
from worlds import cpool_island as ci

MS = 0.001
PK = cpool.PK


class Link:
    def __init__(self, world, tn, serial):
        self.world = world
        self.tn = tn
        self.serial = serial
        self.alive = True
        self.cproto = None
        self.sproto = None
        self.q = {'c': collections.deque(), 's': collections.deque()}
        self.last = {'c': 0.0, 's': 0.0}
        self.lost = {'c': False, 's': False}      # connection_lost delivered to that end
        self.tr = {'c': LinkTransport(self, 'c'), 's': LinkTransport(self, 's')}


class LinkTransport:
    def __init__(self, link, side):
        self.link = link
        self.side = side
        self._closing = False

    def write(self, data):
        self.link.world.link_write(self.link, self.side, bytes(data))

    def writelines(self, parts):
        self.write(b''.join(bytes(p) for p in parts))

    def abort(self):
        if not self._closing:
            self._closing = True
            self.link.world.link_abort(self.link, self.side)

    close = abort

    def is_closing(self):
        return self._closing or not self.link.alive

    def get_extra_info(self, name, default=None):
        return default


class DbIndex:
    """dbview.DatabaseIndex.get_cached_compiler_args() of one instance."""

    def __init__(self, world, tn):
        self.world = world
        self.tn = tn

    def get_cached_compiler_args(self):
        w = self.world
        s = w.S[self.tn]
        P = w.mods['state']
        dbs = immutables.Map({n: P.PickledDatabaseState(v['us'], v['rc'], v['dc'])
                              for n, v in sorted(s['dbs'].items())})
        return dbs, s['global'], s['sys']


class World(cpool.World):

    def draw_config(self):
        t = self.tape
        st = self.stratum
        faulty = st not in ('remote_nofault',)
        c = {'pool': 'remote'}
        c['nworkers'] = 1 + t.draw(3, 'nworkers')
        c['ntenants'] = 1 + t.draw(3, 'ninstances')
        c['cache_size'] = 1 + t.draw(3, 'cache_size')
        c['ndb'] = 1 + t.draw(3, 'ndb')
        c['nclients'] = 1 + t.draw(5, 'nclients')
        c['nreq'] = 2 + t.draw(10, 'nreq')
        c['pmutate'] = t.pick([50, 20, 80], 'pmutate')
        c['svc'] = t.pick([4, 0, 20], 'svc')
        c['think'] = t.pick([5, 0, 30], 'think')
        c['net'] = t.pick([2, 0, 10], 'net')               # max one-way latency, ms
        c['rpool_size'] = 1 + t.draw(3, 'rpool_size')      # RemotePool semaphore
        c['frag'] = t.draw(3, 'frag') == 2
        c['pcrash'] = t.pick([0, 3, 10], 'pcrash') if faulty and t.draw(2, 'f_crash') else 0
        c['nidlecrash'] = t.draw(3, 'nidlecrash') if faulty and t.draw(3, 'f_idlecrash') == 2 else 0
        c['pcerr'] = t.pick([0, 10, 30], 'pcerr') if faulty and t.draw(2, 'f_cerr') else 0
        c['psync'] = t.pick([0, 5, 20], 'psync') if faulty and t.draw(2, 'f_sync') else 0
        c['pdecode'] = t.pick([0, 3, 10], 'pdecode') if faulty and t.draw(3, 'f_decode') == 2 else 0
        c['preply'] = t.pick([0, 3, 10], 'preply') if faulty and t.draw(3, 'f_reply') == 2 else 0
        c['pslow'] = t.pick([0, 5, 20], 'pslow') if faulty and t.draw(2, 'f_slow') else 0
        c['nlinkdrop'] = t.draw(3, 'nlinkdrop') if faulty and t.draw(2, 'f_linkdrop') else 0
        c['prefuse'] = t.pick([0, 30, 60], 'prefuse') if faulty and c['nlinkdrop'] else 0
        c['ntemplatecrash'] = t.draw(2, 'ntemplatecrash') if faulty and t.draw(4, 'f_tmpl') == 3 else 0
        c['pcancel'] = t.pick([5, 15, 40], 'pcancel') if st == 'remote_cancel' else 0
        c.update(pstuck=0, longpause=False, ndrop=0, ppool=0)
        # the compiler server PROCESS dies (with its worker processes) and is started again:
        # everything it held is gone, its id counters start from scratch, instances reconnect
        c['nsrvcrash'] = 1 + t.draw(2, 'nsrvcrash') if st == 'remote_restart' else 0
        self.keyed = st == 'remote_keyed'       # configuration values equal by key only (see cpool.KeyedVal)
        self.cfg = c
        return c

    # -- topology ---------------------------------------------------------------
    def build_server(self):
        c, loop = self.cfg, self.loop
        P, S = self.mods['pool'], self.mods['server']
        self.build_state()
        self.wkind = 'multitenant_worker'
        # seams of the compiler-server tier
        world = self

        class _SrvOS:
            environ = {}

            @staticmethod
            def getpid():
                return 4242

            def __getattr__(self, name):
                return getattr(__import__('os'), name)
        S.os = _SrvOS()

        class SrvSecrets:
            """``secrets`` of the compiler-server process: randomness comes from the tape."""
            compare_digest = staticmethod(__import__('secrets').compare_digest)

            @staticmethod
            def randbits(k):
                # deterministic, different for every process incarnation, and NOT drawn from the
                # tape: the tape of a run must not depend on whether the code asks for randomness
                world.nrandbits += 1
                h = __import__('hashlib').blake2b(f'compiler-server randbits {world.nrandbits}'.encode(), digest_size=16)
                return int.from_bytes(h.digest(), 'big') & ((1 << k) - 1)

            @staticmethod
            def token_urlsafe(n=None):
                return 'sim-secret'

            @staticmethod
            def token_bytes(n=32):
                return SrvSecrets.randbits(8 * n).to_bytes(n, 'big')

            @staticmethod
            def token_hex(n=32):
                return SrvSecrets.token_bytes(n).hex()
        S.secrets = SrvSecrets
        P.os.environ['_EDGEDB_SERVER_COMPILER_POOL_SECRET'] = 'sim-secret'
        loop.create_connection = self.create_connection

        self.links = {}                # tn -> current Link
        self.nlinks = 0
        self.inflight_tn = collections.Counter()
        self.srv_inflight_cid = collections.Counter()
        self.srv_held = set()          # server-side Worker objects currently acquired
        self.started = False
        self.srv_down = False
        self.dead_spools = []
        self.nrandbits = 0
        self.spool = self.pool = self.make_spool()

        common = dict(loop=loop, backend_runtime_params=None, std_schema=cpool.Tok('std'),
                      refl_schema=cpool.Tok('refl'), schema_class_layout=cpool.Tok('layout'))
        self.pools = {tn: P.RemotePool(address=('sim', tn), pool_size=c['rpool_size'],
                                       dbindex=DbIndex(self, tn), **common)
                      for tn in range(c['ntenants'])}

    def make_spool(self):
        """A compiler server process: fresh module-level counters, fresh MultiSchemaPool."""
        c, loop = self.cfg, self.loop
        S = self.mods['server']
        S._client_id_seq = 0
        S._tx_state_id_seq = 0
        for name, code in sorted(self.ci._state.get('server_init', {}).items()):
            setattr(S, name, eval(code, S.__dict__))        # the module-level statements of a new process
        spool = S.MultiSchemaPool(c['cache_size'], secret=b'sim-secret', loop=loop,
                                  runstate_dir='/sim', pool_size=c['nworkers'])
        orig_handle = spool.handle_client_call

        async def handle_client_call(protocol, req_id, msg):
            cid = protocol.client_id
            self.srv_inflight_cid[cid] += 1
            try:
                return await orig_handle(protocol, req_id, msg)
            finally:
                self.srv_inflight_cid[cid] -= 1
        spool.handle_client_call = handle_client_call
        orig_acquire, orig_release = spool._acquire_worker, spool._release_worker

        async def _acquire_worker(**kw):
            w = await orig_acquire(**kw)
            self.srv_held.add(w)
            return w

        def _release_worker(w, **kw):
            self.srv_held.discard(w)
            return orig_release(w, **kw)
        spool._acquire_worker = _acquire_worker
        spool._release_worker = _release_worker
        return spool

    def pool_for(self, tn):
        return self.pools[tn]

    def kwargs(self, tn):
        return {}

    async def main(self):
        c, t, loop = self.cfg, self.tape, self.loop
        await self.spool.start()
        for tn in sorted(self.pools):
            await self.pools[tn].start()
        self.pool_started = self.started = True
        self.ev('pool_started', len(self.spool._workers))
        for i in range(c['nclients']):
            self.client_tasks.append(loop.harness_task(self.client(i)))
        horizon = c['nreq'] * (c['think'] + c['svc'] + 2 * c['net'] + 2)
        for _ in range(c['nidlecrash']):
            loop.call_later_external(t.draw(horizon + 1, 'idlecrash_at') * MS, self.idle_crash,
                                     t.draw(8, 'idlecrash_which'))
        for _ in range(c['nlinkdrop']):
            loop.call_later_external(t.draw(horizon + 1, 'linkdrop_at') * MS, self.drop_link_event,
                                     t.draw(c['ntenants'], 'linkdrop_which'))
        for _ in range(c['ntemplatecrash']):
            loop.call_later_external(t.draw(horizon + 1, 'tmpl_at') * MS, self.template_crash)
        for _ in range(c['nsrvcrash']):
            loop.call_later_external(t.draw(horizon + 1, 'srvcrash_at') * MS, self.server_crash)
        await asyncio.wait(self.client_tasks)
        for tk in self.client_tasks:
            if not tk.cancelled() and tk.exception() is not None:
                raise tk.exception()
        if not self.srv_down:
            self.audit('at the end of the run (everything idle)')
        self.stopping = True
        for tn in sorted(self.pools):
            was_poisoned = self.poisoned(tn)
            try:
                await self.pools[tn].stop()
            except asyncio.CancelledError:
                if not was_poisoned:
                    raise
        await self.spool.stop()

    # -- the network ---------------------------------------------------------------
    async def create_connection(self, factory, host=None, port=None, **kw):
        c, t, loop = self.cfg, self.tape, self.loop
        tn = port
        await loop.sleep_external(t.draw(c['net'] + 1, 'connect_latency') * MS)
        if self.stopping:
            raise ConnectionRefusedError('compiler server is shutting down')
        if self.srv_down:
            self.probes['connect_while_server_down'] += 1
            raise ConnectionRefusedError('compiler server is down')
        if self.started and c['prefuse'] and t.chance(c['prefuse'], 100, 'connect_refused'):
            self.faults['connect_refused'] += 1
            self.ev('connect_refused', tn)
            raise ConnectionRefusedError('injected: compiler server unreachable')
        self.nlinks += 1
        link = Link(self, tn, self.nlinks)
        link.cproto = factory()
        link.sproto = self.mods['server'].CompilerServerProtocol(self.spool, loop)
        self.links[tn] = link
        self.ev('link_up', tn, link.sproto.client_id)
        if self.started:
            self.probes['reconnects'] += 1
        link.cproto.connection_made(link.tr['c'])
        link.sproto.connection_made(link.tr['s'])
        return link.tr['c'], link.cproto

    def link_write(self, link, side, data):
        if not link.alive:
            # written before this end has learnt that the connection is gone: lost with it
            self.probes['write_to_dead_link'] += 1
            if side == 'c':
                for tag, meta in self.req_meta.items():
                    if meta.get('tn') == link.tn and not meta.get('done'):
                        meta['injected'].add('link_lost')
            return
        c, t, loop = self.cfg, self.tape, self.loop
        when = max(loop.time() + t.draw(c['net'] + 1, 'net_latency') * MS, link.last[side])
        link.last[side] = when
        link.q[side].append(data)
        loop.call_at_external(when, self.link_deliver, link, side)

    def link_deliver(self, link, side):
        if not link.alive or not link.q[side]:
            return
        data = link.q[side].popleft()
        proto = link.sproto if side == 'c' else link.cproto
        if side == 's' and link.lost['c'] or side == 'c' and link.lost['s']:
            return
        if self.cfg['frag'] and len(data) > 20:
            cut = 1 + self.tape.draw(len(data) - 1, 'net_frag_at')
            proto.data_received(data[:cut])
            if link.alive:
                proto.data_received(data[cut:])
        else:
            proto.data_received(data)

    def drop_link_event(self, which):
        if self.stopping:
            return
        link = self.links.get(which)
        if link is None or not link.alive:
            return
        self.faults['link_drop_busy' if self.inflight_tn[link.tn] else 'link_drop_idle'] += 1
        self.drop_link(link, None)

    def drop_link(self, link, aborted_by):
        t, loop = self.tape, self.loop
        if not link.alive:
            return
        link.alive = False
        link.q['c'].clear()
        link.q['s'].clear()
        self.ev('link_down', link.tn, aborted_by or 'net')
        for tag, meta in self.req_meta.items():
            if meta.get('tn') == link.tn and not meta.get('done'):
                meta['injected'].add('link_lost')
        for pid in self.procs:
            self.wfaults[pid].append('link_drop')
        for side in ('c', 's'):
            if side == aborted_by:
                loop.call_soon(self.link_lost, link, side)
            else:
                loop.call_later_external(t.draw(4, 'lost_notice') * MS, self.link_lost, link, side)

    # -- the compiler server process dies and is started again ----------------------------------
    def server_crash(self):
        t, loop = self.tape, self.loop
        if self.stopping or self.srv_down or not self.started:
            return
        self.srv_down = True
        self.faults['compiler_server_crash'] += 1
        self.ev('server_crash')
        # its worker processes go with it; nobody is left to be told
        for wk in list(self.procs.values()):
            if wk.alive:
                self.mark_inflight_killed(wk)
                wk.alive = False
                wk.busy = False
                wk.connected = False
                wk.inbox.clear()
        for tr in self.templates:
            tr.closed = True
        self.factory = None
        # every connection dies with the process; only the instances are there to notice
        for tn, link in sorted(self.links.items()):
            if not link.alive:
                continue
            link.alive = False
            link.q['c'].clear()
            link.q['s'].clear()
            link.lost['s'] = True
            self.ev('link_down', tn, 'server_crash')
            for tag, meta in self.req_meta.items():
                if meta.get('tn') == tn and not meta.get('done'):
                    meta['injected'].add('link_lost')
            loop.call_later_external(t.draw(4, 'lost_notice') * MS, self.link_lost, link, 'c')
        # the old server object is orphaned: whatever its coroutines were waiting for never comes
        self.dead_spools.append(self.spool)
        self.srv_inflight_cid.clear()
        self.srv_held.clear()
        loop.call_later_external((1 + t.draw(2500, 'srv_restart_delay')) * MS, self.server_restart)

    def server_restart(self):
        if self.stopping:
            return
        self.loop.harness_task(self._server_restart())

    async def _server_restart(self):
        self.spool = self.pool = self.make_spool()
        self.ev('server_restart')
        await self.spool.start()
        self.srv_down = False
        self.probes['compiler_server_restarted'] += 1

    def link_abort(self, link, side):
        if link.alive:
            if not self.stopping:
                self.probes['link_aborted_by_' + ('instance' if side == 'c' else 'server')] += 1
            self.drop_link(link, side)

    def link_lost(self, link, side):
        if link.lost[side]:
            return
        link.lost[side] = True
        proto = link.cproto if side == 'c' else link.sproto
        self.ev('conn_lost', link.tn, side)
        proto.connection_lost(None)

    # -- requests ---------------------------------------------------------------------
    async def guarded(self, i, tag, coro):
        tn = self.req_meta[tag]['tn']
        self.inflight_tn[tn] += 1
        try:
            return await super().guarded(i, tag, coro)
        finally:
            self.inflight_tn[tn] -= 1

    def poisoned(self, tn):
        """RemotePool._acquire_worker() awaits the shared ``_worker`` future directly: a caller
        cancelled while the pool is reconnecting cancels that future for everybody, for good
        (an availability defect outside C17: recorded as a probe, see DESIGN 11.3)."""
        fut = getattr(self.pools[tn], '_worker', None)
        return fut is not None and fut.done() and fut.cancelled()

    def unexpected_cancel(self, tag):
        tn = self.req_meta[tag]['tn']
        if self.poisoned(tn):
            self.probes['remote_pool_poisoned_by_cancelled_caller'] += 1
            return True
        return False

    def _inner(self, methname, args):
        """The instance's original (method, args) of a request forwarded by the
        compiler server to a worker."""
        if methname == 'call_for_client' and len(args) >= 4:
            msg = args[3]
            if msg is not None:
                try:
                    return real_pickle.loads(bytes(msg))
                except Exception:
                    return methname, args
            return args[4], args[5:]
        return methname, args

    def tag_of(self, methname, args):
        m, a = self._inner(methname, args)
        return super().tag_of(m, a)

    def req_opts(self, methname, args):
        m, a = self._inner(methname, args)
        return super().req_opts(m, a)

    def check_error(self, tag, e):
        meta = self.req_meta[tag]
        inj = meta['injected']
        if isinstance(e, ConnectionError) and 'link_lost' in inj:
            return
        if isinstance(e, RuntimeError) and 'unexpectedly closed' in str(e) and 'link_lost' in inj:
            return
        S = self.mods['state']
        if isinstance(e, S.FailedStateSync) and 'link_lost' in inj:
            # the compiler server forgot the client (connection_lost) while the request waited
            self.probes['sync_failed_for_disconnected_client'] += 1
            return
        super().check_error(tag, e)

    # -- E3 on both hops -------------------------------------------------------------------
    def audit(self, when):
        try:
            with cpool.STRICT:
                self.audit_instances(when)
                self.audit_workers(when)
        except (AttributeError, KeyError, TypeError):
            self.probes['audit_unavailable'] += 1

    def audit_instances(self, when):
        ld = real_pickle.loads
        for tn, pool in sorted(self.pools.items()):
            link = self.links.get(tn)
            if (link is None or not link.alive or link.q['c'] or link.q['s'] or self.inflight_tn[tn]):
                continue
            fut = pool._worker
            if fut is None or not fut.done() or fut.cancelled() or fut.exception() is not None:
                continue
            rw = fut.result()
            cid = link.sproto.client_id
            if self.srv_inflight_cid[cid]:
                continue
            client = self.spool._clients.get(cid)
            if client is None or rw._con._protocol is not link.cproto:
                continue
            diffs = []
            for name, pdb in sorted(rw._dbs.items()):
                sdb = client.dbs.get(name)
                if sdb is None:
                    diffs.append(('missing-db', name, None))
                    continue
                if pdb.user_schema_pickle is not None and ld(pdb.user_schema_pickle) != ld(sdb.user_schema):
                    diffs.append(('user_schema', ld(pdb.user_schema_pickle), ld(sdb.user_schema)))
                if pdb.reflection_cache != ld(sdb.reflection_cache):
                    diffs.append(('reflection_cache', pdb.reflection_cache, ld(sdb.reflection_cache)))
                if pdb.database_config != ld(sdb.database_config):
                    diffs.append(('database_config', pdb.database_config, ld(sdb.database_config)))
            if rw._global_schema_pickle is not None and ld(rw._global_schema_pickle) != ld(client.global_schema):
                diffs.append(('global_schema', ld(rw._global_schema_pickle), ld(client.global_schema)))
            if rw._system_config is not None and rw._system_config != ld(client.instance_config):
                diffs.append(('instance_config', rw._system_config, ld(client.instance_config)))
            self.probes['audits_instance'] += 1
            if diffs:
                what = 'missing' if any(d[0].startswith('missing') for d in diffs) else 'differs'
                self.violate('E3', f'instance-belief-{what}[remote]',
                             f'{when}: instance {tn} (client {cid}) record of the compiler server differs from '
                             f'what the compiler server holds for it: '
                             + '; '.join(f'{k}: instance believes {a!r}, compiler server holds {b!r}'
                                         for k, a, b in diffs[:4]))

    def audit_workers(self, when):
        ld = real_pickle.loads
        for pid, w in list(self.spool._workers.items()):
            proc = self.procs.get(pid)
            if proc is None or not proc.alive or proc.busy or proc.inbox or w in self.srv_held:
                continue
            mod = proc.mod
            if not hasattr(mod, 'clients'):
                raise AttributeError('worker globals renamed')
            pending = set(w._invalidated_clients)
            diffs = []
            for cid, cs in sorted(w._cache.items()):
                if cid in pending:
                    continue
                if cid not in self.spool._clients:
                    # a client that has disconnected: requests of it that were still queued are
                    # served (their replies go nowhere) and re-create cache entries, but client ids
                    # are never reused, so no request can observe what is recorded for it
                    self.probes['cache_entry_of_disconnected_client'] += 1
                    continue
                actual = mod.clients.get(cid)
                if actual is None:
                    diffs.append(('missing-client', cid, None))
                    continue
                for name, ps in sorted(cs.dbs.items()):
                    adb = actual.dbs.get(name)
                    if adb is None:
                        diffs.append(('missing-db', (cid, name), None))
                        continue
                    if ld(ps.user_schema) != adb.user_schema:
                        diffs.append(('user_schema', ld(ps.user_schema), adb.user_schema))
                    if ld(ps.reflection_cache) != adb.reflection_cache:
                        diffs.append(('reflection_cache', ld(ps.reflection_cache), adb.reflection_cache))
                    if ld(ps.database_config) != adb.database_config:
                        diffs.append(('database_config', ld(ps.database_config), adb.database_config))
                if ld(cs.global_schema) != actual.global_schema:
                    diffs.append(('global_schema', ld(cs.global_schema), actual.global_schema))
                if ld(cs.instance_config) != actual.instance_config:
                    diffs.append(('instance_config', ld(cs.instance_config), actual.instance_config))
            self.probes['audits'] += 1
            if not diffs:
                self.wfaults[pid].clear()
            else:
                ctx = '+'.join(sorted(set(self.wfaults[pid]))) or 'no-fault'
                what = 'missing' if any(d[0].startswith('missing') for d in diffs) else 'differs'
                self.violate('E3', f'belief-{what}[remote]:after-{ctx}',
                             f'{when}: compiler-server record of worker {pid} differs from what the worker holds: '
                             + '; '.join(f'{k}: server believes {a!r}, worker holds {b!r}' for k, a, b in diffs[:4]))

    def result(self):
        r = super().result()
        return r


def run(tape, **opts):
    return World(tape, **opts).run()
