"""Island for the compiler transaction-state world (C09).

Real (loaded from the working tree): edb/server/compiler/{compiler,dbstate,
enums}.py, edb.edgeql.{ast,qltypes}, edb.errors, edb.common.*,
edb.server.defines, edb.pgsql.params.

Everything else that compiler.py / dbstate.py import cannot be imported here
(native parser, Cython).  Those modules are replaced by *placeholders* that
only satisfy import-time references (base classes, annotations, decorators,
constant tables); after the import the placeholders are FROZEN: touching a
name that is not one of the explicit fakes below -- or calling / isinstance-
checking a placeholder class -- raises HarnessError.  So the transaction code
paths that run in the simulation only ever meet real code or the explicit,
hand-written fakes, each of which is listed in the evidence.
"""
from __future__ import annotations

import collections
import importlib
import importlib.abc
import importlib.machinery
import os
import sys
import types
import uuid

import immutables

from sim import island
from sim.loop import HarnessError

REPO = island.REPO
_FROZEN = [False]
RUNTIME_TOUCHED = set()


class _PlaceholderMeta(type):
    def __getattr__(cls, name):
        if name.startswith('__') and name.endswith('__'):
            raise AttributeError(name)
        if _FROZEN[0]:
            raise HarnessError(f'run-time access to unfaked attribute {cls.__module__}.{cls.__name__}.{name}')
        v = _PlaceholderMeta(name, (), {'__module__': cls.__module__})
        setattr(cls, name, v)
        return v

    def __call__(cls, *a, **k):
        if _FROZEN[0]:
            raise HarnessError(f'run-time call of placeholder {cls.__module__}.{cls.__name__}')
        if len(a) == 1 and not k and (isinstance(a[0], types.FunctionType) or isinstance(a[0], type)):
            return a[0]          # used as a decorator at import time
        return type.__call__(cls)

    def __instancecheck__(cls, inst):
        if _FROZEN[0]:
            raise HarnessError(f'run-time isinstance() against placeholder {cls.__module__}.{cls.__name__}')
        return False

    def __or__(cls, o):
        return cls

    def __ror__(cls, o):
        return cls

    def __getitem__(cls, k):
        return cls


class _Placeholder(types.ModuleType):
    def __getattr__(self, name):
        if name.startswith('__') and name.endswith('__'):
            raise AttributeError(name)
        if _FROZEN[0]:
            raise HarnessError(f'run-time access to unfaked name {self.__name__}.{name}')
        v = _PlaceholderMeta(name, (), {'__module__': self.__name__})
        setattr(self, name, v)
        return v


# packages entered without running their __init__ (it would import the parser)
SKIPINIT = {'edb.schema', 'edb.edgeql', 'edb.server.compiler', 'edb.pgsql', 'edb.ir', 'edb.server'}
REAL = {'edb.server.compiler.dbstate', 'edb.server.compiler.compiler', 'edb.server.compiler.enums',
        'edb.server.compiler.ddl',
        'edb.edgeql.ast', 'edb.edgeql.qltypes', 'edb.schema.defines', 'edb.server.defines',
        'edb.pgsql.params', 'edb.server.args', 'edb.server.metrics'}
PLACEHOLDER_ROOTS = {'edb._edgeql_parser', 'edb.common.turbo_uuid', 'edb.graphql'}


class _Finder(importlib.abc.MetaPathFinder, importlib.abc.Loader):
    def __init__(self, patched):
        self.patched = patched      # module name -> patched source (mutants)

    def find_spec(self, name, path, target=None):
        if name in self.patched:
            return importlib.machinery.ModuleSpec(name, self, is_package=False)
        if name in REAL:
            return None
        if name in SKIPINIT or name in PLACEHOLDER_ROOTS or (
                name.startswith('edb.') and any(name.startswith(s + '.') for s in SKIPINIT)):
            return importlib.machinery.ModuleSpec(name, self, is_package=True)
        return None

    def create_module(self, spec):
        if spec.name in self.patched:
            return None
        if spec.name in SKIPINIT:
            m = types.ModuleType(spec.name)
            m.__path__ = [os.path.join(REPO, spec.name.replace('.', '/'))]
        else:
            m = _Placeholder(spec.name)
            m.__path__ = []
        return m

    def exec_module(self, module):
        src = self.patched.get(module.__name__)
        if src is not None:
            module.__file__ = os.path.join(REPO, module.__name__.replace('.', '/') + '.py')
            exec(compile(src, module.__file__, 'exec', dont_inherit=True), module.__dict__)


# ---------------------------------------------------------------------------
# explicit fakes
# ---------------------------------------------------------------------------

class FlatSchema:
    """An opaque tagged schema value: a name and the set of modules it has."""

    def __init__(self, tag, modules=('default', 'std')):
        self.tag = tag
        self.modules = frozenset(modules)

    def __repr__(self):
        return f'<schema {self.tag}>'

    def __reduce__(self):
        return (FlatSchema, (self.tag, tuple(sorted(self.modules))))


class ChainedSchema:
    def __init__(self, std, user, glob):
        self.std, self.user, self.glob = std, user, glob

    def get_top_schema(self):
        return self.user

    def get_global_schema(self):
        return self.glob

    def get_global(self, cls, name):
        from edb import errors
        if name not in self.user.modules:
            raise errors.InvalidReferenceError(f'module {name!r} does not exist')
        return name

    def get_last_migration(self):
        return None          # the migration log itself is not modelled


class DeltaGuidance:
    """edb.schema.objects.DeltaGuidance stand-in (part of the pickled migration state)."""

    def __eq__(self, o):
        return isinstance(o, DeltaGuidance)

    def __hash__(self):
        return 1


class FakeDelta:
    """What s_ddl.delta_and_schema_from_ddl / delta_from_ddl / delta_schemas return."""

    def __init__(self, new_schema=None, subcommands=()):
        self.new_schema = new_schema
        self.warnings = ()
        self._sub = tuple(subcommands)

    def get_subcommands(self, **kw):
        return self._sub

    def apply(self, schema, context):
        return self.new_schema


class FakeBlock:
    """edb.pgsql.dbops.PLTopBlock stand-in: the SQL text is never looked at."""

    def __init__(self):
        self.cmds = []

    def is_transactional(self):
        return True

    def to_string(self):
        return 'ddl'

    def get_statements(self):
        return ['ddl']

    def add_command(self, c):
        self.cmds.append(c)


def apply_fake_ddl(errors, sch, ql):
    """The schema-level effect of one fake DDL statement on a ChainedSchema (module
    tags in the user schema, role tags in the global schema), or the error the
    schema layer would raise."""
    d = ql.__dict__
    if d.get('reject'):
        raise errors.SchemaDefinitionError(f'injected: DDL {d["op"]} {d["tag"]} rejected by the compiler')
    op, tag = d['op'], d['tag']
    if d.get('is_global'):
        if op == 'add':
            if tag in sch.glob.modules:
                raise errors.SchemaError(f'role {tag} already exists')
            roles = sch.glob.modules | {tag}
        else:
            if tag not in sch.glob.modules:
                raise errors.InvalidReferenceError(f'role {tag} does not exist')
            roles = sch.glob.modules - {tag}
        return ChainedSchema(sch.std, sch.user, FlatSchema(sch.glob.tag + ('+' if op == 'add' else '-') + tag, roles))
    if op == 'add':
        if tag in sch.user.modules:
            raise errors.SchemaError(f'module {tag} already exists')
        mods = sch.user.modules | {tag}
    else:
        if tag not in sch.user.modules:
            raise errors.InvalidReferenceError(f'module {tag} does not exist')
        mods = sch.user.modules - {tag}
    return ChainedSchema(sch.std, FlatSchema(sch.user.tag + ('+' if op == 'add' else '-') + tag, mods), sch.glob)


class _Iso:
    def to_qltypes(self):
        from edb.edgeql import qltypes
        return qltypes.TransactionIsolationLevel.SERIALIZABLE


class _Acc:
    def to_qltypes(self):
        from edb.edgeql import qltypes
        return qltypes.TransactionAccessMode.READ_WRITE


_CONFIG_DEFAULTS = {
    'force_database_error': 'false', '__internal_testmode': False,
    'default_transaction_isolation': _Iso(), 'default_transaction_access_mode': _Acc(),
    'allow_bare_ddl': 'AlwaysAllow', 'store_migration_sdl': 'NeverStore',
}


def fake_lookup(name, *maps, spec=None, allow_unrecognized=False):
    if name in _CONFIG_DEFAULTS:
        return _CONFIG_DEFAULTS[name]
    for m in maps:
        if m and name in m:
            return m[name]
    raise HarnessError(f'config.lookup({name!r}) is not faked')


class Source:
    """Stand-in for edgeql.Source: carries the hand-built statement list.  Inside a
    migration block compiler.compile() re-tokenises the original text
    (Source.from_string(source.text())): the "text" is a key into a registry."""
    registry = {}

    def __init__(self, stmts):
        self.stmts = stmts

    def text(self):
        key = f'<source {id(self)}>'
        Source.registry.clear()          # one request in flight per compile() call
        Source.registry[key] = self.stmts
        return key

    def first_extra(self):
        return None

    @staticmethod
    def from_string(s):
        if s not in Source.registry:
            raise HarnessError('Source.from_string of an unknown text')
        return Source(Source.registry[s])


class FakeConfigOpRecord:
    """What the compiler returns for CONFIGURE SESSION: applied by the
    driver like dbview.apply_config_ops does."""

    def __init__(self, name, value):
        self.name, self.value = name, value

    def apply(self, conf):
        if self.value is None:
            return conf.delete(self.name) if self.name in conf else conf
        return conf.set(self.name, self.value)

    def __reduce__(self):
        return (FakeConfigOpRecord, (self.name, self.value))


STUBS = [
    'edb.schema.schema.FlatSchema / ChainedSchema -> opaque tagged value with a module set (4 methods used by the transaction code)',
    'edb.schema.modules.DEFAULT_MODULE_ALIAS, Module -> constants',
    'edb.server.config.lookup -> defaults for force_database_error/__internal_testmode/default_transaction_*',
    'edb.schema.ddl.delta_and_schema_from_ddl / delta_from_ddl / apply_sdl / delta_schemas / ddlast_from_delta -> module-tag arithmetic on the opaque schema (or the error the schema layer would raise); compiler/ddl.py itself is REAL',
    'compiler.ddl._process_delta (SQL generation via pg_delta) -> adopts the schema-level result through the real Transaction.update_schema; pgsql.dbops blocks -> text-less stand-in',
    'edb.schema.objects.DeltaGuidance, ChainedSchema.get_last_migration (always None: the migration log is not modelled)',
    'compiler._compile_ql_query -> records what the compiler sees (user schema tag, global schema tag, aliases, session config)',
    'compiler._compile_ql_config_op -> calls the real Transaction.update_session_config',
    'compiler.status.get_status, pgsql.common.quote_ident, compiler._get_schema_version, _extract_extensions, ddl.produce_feature_used_metrics, sertypes.NULL_TYPE_ID -> trivial',
    'edgeql.parse_block / Source -> hand-built qlast statement lists (no EdgeQL text)',
    'CompilerState -> std schema tag, config_spec None, state_serializer_factory stub',
    'edgeql.compiler.preprocess_script, compiler._get_compile_options, sertypes.describe_params -> parameterless stand-ins (the real _extract_params runs on an empty parameter list)',
    'all other imports of compiler.py/dbstate.py -> frozen import-time placeholders (never executed)',
]

_state = {}


def load(patches=None):
    if _state:
        if _state['key'] != repr(patches):
            raise RuntimeError('one process hosts one island / one mutant')
        return _state
    if REPO not in sys.path:
        sys.path.insert(0, REPO)
    patched = {}
    for name in ('edb.server.compiler.dbstate', 'edb.server.compiler.compiler', 'edb.server.compiler.ddl'):
        rel = name.replace('.', '/') + '.py'
        src = island.read_source(rel)
        new = island.apply_patches(src, patches, rel)
        if new != src:
            patched[name] = new
    sys.meta_path.insert(0, _Finder(patched))

    # explicit fakes that must exist *before* compiler.py is imported
    import edb.schema.schema as s_schema
    s_schema.FlatSchema = FlatSchema
    s_schema.ChainedSchema = ChainedSchema
    s_schema.Schema = (FlatSchema, ChainedSchema)
    import edb.schema.modules as s_mod
    s_mod.DEFAULT_MODULE_ALIAS = 'default'
    s_mod.Module = type('Module', (), {})
    import edb.server.compiler.sertypes as sertypes
    sertypes.NULL_TYPE_ID = uuid.UUID(int=0)
    sertypes.NULL_TYPE_DESC = b''

    from edb import errors
    from edb.edgeql import ast as qlast, qltypes
    from edb.server.compiler import dbstate, compiler, enums
    import edb.server.config as config
    import edb.server.compiler.status as status
    import edb.server.compiler.ddl as ddl
    import edb.pgsql.common as pg_common
    import edb.edgeql as edgeql

    config.lookup = fake_lookup
    status.get_status = lambda ql: type(ql).__name__.encode()
    pg_common.quote_ident = lambda s: '"%s"' % s
    ddl.produce_feature_used_metrics = lambda *a: None
    compiler._get_schema_version = lambda s: uuid.UUID(int=1)
    compiler._extract_extensions = lambda ctx, s: ([], [])
    compiler._extract_roles = lambda gs: ()
    edgeql.parse_block = lambda src: src.stmts
    edgeql.Source = Source
    edgeql.NormalizedSource = type('NormalizedSource', (Source,), {})

    observed = collections.defaultdict(list)   # request key -> what its queries were compiled against

    this = sys.modules[__name__]

    def _register(cls):
        # instances end up inside the pickled compiler state (MigrationState.accepted_cmds)
        cls.__module__ = __name__
        cls.__qualname__ = cls.__name__
        setattr(this, cls.__name__, cls)
        return cls

    @_register
    class FakeDDL(qlast.DDLCommand):
        pass

    @_register
    class FakeGlobalDDL(qlast.GlobalObjectCommand):
        pass

    @_register
    class FakeTarget(qlast.Schema):
        pass

    def mkddl(op, tag, reject=False, is_global=False):
        d = FakeGlobalDDL() if is_global else FakeDDL()
        d.__dict__.update(op=op, tag=tag, reject=reject, is_global=is_global)
        return d

    def mktarget(mods):
        tgt = FakeTarget(declarations=[])
        tgt.__dict__['mods'] = tuple(sorted(mods))
        return tgt

    class FakeQuery(qlast.Command):
        pass

    class FakeConfig(qlast.ConfigOp):
        pass

    def mkconfig(name, value):
        c = FakeConfig()
        c.__dict__.update(cfg_name=name, cfg_value=value)
        c.scope = qltypes.ConfigScope.SESSION
        return c

    # ---- the schema layer below compiler/ddl.py (ddl.py itself is real) ----
    import edb.schema.ddl as s_ddl
    import edb.schema.objects as s_obj
    import edb.pgsql.dbops as pg_dbops

    def _apply_stmt(schema, stmt):
        if isinstance(stmt, qlast.CreateMigration):
            if stmt.metadata_only:
                # only the migration log changes (COMMIT MIGRATION REWRITE): one '@' per recorded migration
                return ChainedSchema(schema.std, FlatSchema(schema.user.tag + '@', schema.user.modules), schema.glob)
            for cmd in stmt.body.commands:
                schema = _apply_stmt(schema, cmd)
            return schema
        if isinstance(stmt, (FakeDDL, FakeGlobalDDL)):
            return apply_fake_ddl(errors, schema, stmt)
        raise HarnessError(f'schema layer stand-in cannot apply {type(stmt).__name__}')

    def delta_and_schema_from_ddl(stmt, *, schema, modaliases, **kw):
        new_schema = _apply_stmt(schema, stmt)
        return new_schema, FakeDelta(new_schema)

    def delta_from_ddl(stmt, *, schema, modaliases, **kw):
        return FakeDelta(_apply_stmt(schema, stmt))

    def apply_sdl(target, *, base_schema, current_schema, testmode=False):
        if 'mods' not in target.__dict__:
            # START MIGRATION REWRITE: "an empty schema except for module default"
            return ChainedSchema(base_schema.std, FlatSchema('R0', ('default', 'std')), base_schema.glob), []
        mods = frozenset(target.__dict__['mods'])
        tag = 'T(' + ','.join(sorted(mods - {'default', 'std'})) + ')'
        return ChainedSchema(base_schema.std, FlatSchema(tag, mods), base_schema.glob), []

    def _diff(schema, target):
        cur, tgt = schema.user.modules, target.user.modules
        return [('drop', m) for m in sorted(cur - tgt)] + [('add', m) for m in sorted(tgt - cur)]

    def delta_schemas(schema, target, guidance=None):
        return FakeDelta(None, _diff(schema, target))

    def ddlast_from_delta(schema, target, diff, testmode=False):
        return tuple(mkddl(op, m) for op, m in diff.get_subcommands())

    s_ddl.delta_and_schema_from_ddl = delta_and_schema_from_ddl
    s_ddl.delta_from_ddl = delta_from_ddl
    s_ddl.apply_sdl = apply_sdl
    s_ddl.delta_schemas = delta_schemas
    s_ddl.ddlast_from_delta = ddlast_from_delta
    s_obj.DeltaGuidance = DeltaGuidance
    import edb.schema.migrations as s_migrations
    s_migrations.get_ordered_migrations = lambda schema: []      # the migration log is not modelled
    s_schema.EMPTY_SCHEMA = FlatSchema('empty', modules=())
    pg_dbops.PLTopBlock = pg_dbops.PLBlock = pg_dbops.SQLBlock = FakeBlock

    process_delta_fail = [False]

    def fake_process_delta(ctx, delta):
        # stand-in for the SQL generation (pg_delta): the schema-level result is adopted
        if process_delta_fail[0]:
            process_delta_fail[0] = False
            raise errors.SchemaDefinitionError('injected: the delta is rejected when it is adapted for the backend')
        ctx.state.current_tx().update_schema(delta.new_schema)
        return FakeBlock(), frozenset(), []

    ddl._process_delta = fake_process_delta
    ddl._new_delta_context = lambda ctx, args=None: None

    def fake_query(ctx, ql, source=None, script_info=None):
        tx = ctx.state.current_tx()
        observed[ctx.cache_key.int].append((tx.get_user_schema().tag, tx.get_modaliases(), tx.get_session_config(),
                                            tx.get_global_schema().tag))
        return dbstate.NullQuery()

    compiler._compile_ql_query = fake_query

    def fake_config_op(ctx, ql):
        tx = ctx.state.current_tx()
        conf = tx.get_session_config()
        op = FakeConfigOpRecord(ql.cfg_name, ql.cfg_value)
        tx.update_session_config(op.apply(conf))
        return dbstate.SessionStateQuery(
            sql=b'cfg', config_scope=qltypes.ConfigScope.SESSION, is_backend_setting=False,
            requires_restart=False, is_system_config=False, config_op=op)

    compiler._compile_ql_config_op = fake_config_op

    # scripts: only ever reach the point where transaction control inside a
    # script is rejected; the pre-pass over the script is a no-op stand-in
    import edb.edgeql.compiler as qlcompiler
    qlcompiler.preprocess_script = lambda stmts, schema, options: types.SimpleNamespace(params={}, schema=schema)
    compiler._get_compile_options = lambda ctx, **kw: None
    sertypes.describe_params = lambda *, schema, params, protocol_version: (b'', uuid.UUID(int=2))

    class Req:
        input_language = enums.InputLanguage.EDGEQL
        output_format = enums.OutputFormat.BINARY
        input_format = enums.InputFormat.BINARY
        expect_one = False
        implicit_limit = 0
        inline_typeids = inline_typenames = inline_objectids = False
        protocol_version = (3, 0)
        role_name = branch_name = None

        key = 7

        def __init__(self, stmts, modaliases=None, session_config=None, key=7):
            self.source = Source(stmts)
            self.modaliases = modaliases
            self.session_config = session_config
            self.key = key

        def get_cache_key(self):
            return uuid.UUID(int=self.key)

    class CS:
        std_schema = FlatSchema('std')
        config_spec = None
        state_serializer_factory = type('F', (), {'make': staticmethod(lambda *a: 'ser')})()

    tp = island.TimeProxy()
    dbstate.time = tp
    compiler.time = tp

    # ---- pooled mode: the real compiler pool around the real compiler ----
    # (rpc.CompilationRequest.serialize/deserialize is a stand-in: the
    # "serialized request" is a key into an in-process table)
    requests = {}
    import edb.server.compiler.rpc as rpc

    class FakeRpcRequest:
        @staticmethod
        def deserialize(data, original_query, serializer):
            return requests[data]

    rpc.CompilationRequest = FakeRpcRequest
    CS.compilation_config_serializer = None
    import edb.server.compiler as compiler_pkg
    compiler_pkg.new_compiler = lambda *a, **k: compiler.Compiler(CS())
    compiler_pkg.Compiler = compiler.Compiler
    compiler_pkg.dbstate = dbstate
    pool_mods, wcode = _load_compiler_pool(patches)

    _FROZEN[0] = True
    _state.update(
        key=repr(patches), errors=errors, qlast=qlast, qltypes=qltypes, dbstate=dbstate,
        compiler=compiler, enums=enums, observed=observed, mkddl=mkddl, mktarget=mktarget, FakeQuery=FakeQuery, ddl=ddl, process_delta_fail=process_delta_fail,
        mkconfig=mkconfig, Req=Req, C=compiler.Compiler(CS()), time=tp,
        FlatSchema=FlatSchema, DEFAULT_ALIASES=compiler.DEFAULT_MODULE_ALIASES_MAP,
        EMPTY=immutables.Map(), requests=requests, mods=pool_mods, wcode=wcode,
    )
    return _state


def _load_compiler_pool(patches):
    """Load edb/server/compiler_pool/{state,amsg,queue,worker_proc,pool}.py for
    real (from the working tree, with the same in-memory patches) next to the
    real compiler; worker.py is compiled once and exec'd per simulated process."""
    pkg = 'edb.server.compiler_pool'
    for name, attrs in (
        ('edb.common.markup', {'dump': lambda *a, **k: None}),
        ('edb.common.uuidgen', {'uuid4': lambda: uuid.UUID(int=3), 'UUID': uuid.UUID}),
    ):
        m = types.ModuleType(name)
        m.__dict__.update(attrs)
        sys.modules[name] = m
    cp = types.ModuleType(pkg)
    cp.__path__ = [os.path.join(REPO, 'edb/server/compiler_pool')]
    cp.__package__ = pkg
    sys.modules[pkg] = cp
    import edb.server as srv
    srv.compiler_pool = cp
    mods = {}
    src = {}
    for rel in ('state', 'amsg', 'queue', 'worker_proc', 'pool', 'worker'):
        relpath = f'edb/server/compiler_pool/{rel}.py'
        src[rel] = island.apply_patches(island.read_source(relpath), patches, relpath)
    for rel in ('state', 'amsg', 'queue', 'worker_proc', 'pool'):
        name = f'{pkg}.{rel}'
        m = types.ModuleType(name)
        m.__file__ = os.path.join(REPO, f'edb/server/compiler_pool/{rel}.py')
        m.__package__ = pkg
        sys.modules[name] = m
        setattr(cp, rel, m)
        exec(compile(src[rel], m.__file__, 'exec', dont_inherit=True), m.__dict__)
        mods[rel] = m
    null = island.NullLogger()
    mods['pool'].logger = null
    mods['pool'].log_metrics = null
    ptime = island.TimeProxy()
    mods['pool'].time = ptime
    mods['pool_time'] = ptime
    wcode = {'worker': compile(src['worker'], os.path.join(REPO, 'edb/server/compiler_pool/worker.py'),
                               'exec', dont_inherit=True)}
    return mods, wcode


_wcount = [0]
SIM = None


def new_worker_module(kind):
    _wcount[0] += 1
    pkg = 'edb.server.compiler_pool'
    m = types.ModuleType(f'{pkg}.{kind}__proc{_wcount[0]}')
    m.__package__ = pkg
    m.__file__ = os.path.join(REPO, f'edb/server/compiler_pool/{kind}.py')
    exec(_state['wcode'][kind], m.__dict__)
    return m


class PickleProxy:
    """Pass-through ``pickle`` (the pooled C09 stratum injects no pickle faults)."""
    import pickle as _p
    PicklingError = _p.PicklingError
    UnpicklingError = _p.UnpicklingError
    PickleError = _p.PickleError
    HIGHEST_PROTOCOL = _p.HIGHEST_PROTOCOL
    DEFAULT_PROTOCOL = _p.DEFAULT_PROTOCOL
    loads = staticmethod(_p.loads)
    dumps = staticmethod(_p.dumps)

    def __init__(self, site, hook):
        pass
