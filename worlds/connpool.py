"""C15 / C16 world: the real edb/server/connpool/pool.py driven by simulated
clients against a fake PostgreSQL on a virtual-time loop.

Everything random is drawn from the tape.  The fake backend is the ground
truth for the C15 invariants; the C16 oracle is bounded progress once the
environment is quiescent (no faults, nothing in flight, every holder has
released) while some acquire() is still pending.
"""
from __future__ import annotations

import asyncio
import collections
import hashlib

from sim.loop import SimLoop, HarnessError
from sim import island

GRID = 0.005

STRATA = ('core', 'nofault', 'disc_fail', 'cancel', 'cancel_woken', 'prune_all', 'prune_busy', 'big', 'tight', 'tight_nofault')

# probes: name -> (class attr, how to count).  Wrappers never change behaviour.
_PROBE_METHODS = (
    '_tick', '_schedule_transfer', '_schedule_new_conn', '_schedule_discard',
    '_run_gc', '_drop_block', '_try_steal_conn', '_maybe_rebalance',
    '_maybe_free_into_starving_blocks', '_release_unused',
)


class FakeConn:
    __slots__ = ('id', 'db', 'state', 'excused', '_pruned_all')

    def __init__(self, id, db):
        self.id = id
        self.db = db
        self.state = 'open'
        self.excused = False
        self._pruned_all = False

    def __hash__(self):
        return self.id

    def __eq__(self, other):
        return self is other

    def __repr__(self):
        return f'<conn#{self.id} {self.db} {self.state}>'


class InjectedConnectError(ConnectionError):
    def __init__(self, msg, db, fields=None):
        super().__init__(msg)
        self.db = db
        if fields is not None:
            self.fields = fields


class InjectedDisconnectError(OSError):
    pass


_loaded = {}


def get_mods(mutant=None):
    """One loaded copy of the pool per (process, mutant)."""
    key = mutant['name'] if mutant else None
    if key not in _loaded:
        patches = mutant['patches'] if mutant else None
        mods = island.load_connpool(patches=patches)
        _install_probes(mods)
        _loaded[key] = mods
    return _loaded[key]


def _install_probes(mods):
    P = mods['pool']
    counters = collections.Counter()
    mods['probes'] = counters
    avail = []
    mods['probes_avail'] = avail

    def wrap(cls, name):
        orig = cls.__dict__.get(name)
        if orig is None or not callable(orig):
            return
        avail.append(f'{cls.__name__}.{name}')

        def w(self, *a, **k):
            r = orig(self, *a, **k)
            counters[name] += 1
            if r is True:
                counters[name + ':true'] += 1
            return r
        w.__name__ = name
        setattr(cls, name, w)

    pool_cls = getattr(P, 'Pool', None)
    base_cls = getattr(P, 'BasePool', None)
    block_cls = getattr(P, 'Block', None)
    for name in _PROBE_METHODS:
        for cls in (pool_cls, base_cls):
            if cls is not None and name in cls.__dict__:
                wrap(cls, name)
    if block_cls is not None:
        for name in ('abort_waiters', 'try_steal'):
            if name in block_cls.__dict__:
                orig = block_cls.__dict__[name]

                def mk(orig, name):
                    def w(self, *a, **k):
                        r = orig(self, *a, **k)
                        counters['Block.' + name] += 1
                        if r is not None:
                            counters['Block.' + name + ':some'] += 1
                        return r
                    return w
                setattr(block_cls, name, mk(orig, name))
                avail.append('Block.' + name)
        if 'try_acquire' in block_cls.__dict__:
            orig_ta = block_cls.__dict__['try_acquire']

            async def try_acquire(self, *a, **k):
                r = await orig_ta(self, *a, **k)
                if r is None:
                    counters['Block.try_acquire:woken_empty'] += 1
                return r
            block_cls.try_acquire = try_acquire
            avail.append('Block.try_acquire')
    mods['probes_available'] = avail


class World:
    def __init__(self, tape, *, stratum='core', mutant=None, liveness=True,
                 record=False, big=False, tight=False):
        self.tape = tape
        self.stratum = stratum
        self.liveness = liveness
        self.record = record
        self.big = big
        self.tight = tight
        self.mods = get_mods(mutant)
        self.P = self.mods['pool']
        self.cfgmod = self.mods['config']
        self.violations = []
        self.events = []          # abstract event log (id-free)
        self.trace = [] if record else None
        self.faults = collections.Counter()
        self.probes = collections.Counter()
        self.h = hashlib.blake2b(digest_size=8)
        self.frozen = False

    # -- logging (never draws, never reads a clock other than loop.time) ----
    def ev(self, kind, a='', b=''):
        if self.frozen:
            return      # teardown (cancelling what is left) is not part of the run
        self.h.update(f'{kind}|{a}|{b};'.encode())
        self.nevents += 1
        if self.trace is not None:
            self.trace.append((self.loop.steps, round(self.loop.time(), 6), kind, a, b))

    def violate(self, prop, kind, signature, detail):
        if any(v['property'] == prop and v['kind'] == kind and v['signature'] == signature
               for v in self.violations):
            return
        self.violations.append({
            'property': prop, 'kind': kind, 'signature': signature,
            'detail': detail, 'step': self.loop.steps,
            'vtime': round(self.loop.time(), 6)})

    # -- configuration ---------------------------------------------------------
    def draw_config(self):
        t = self.tape
        st = self.stratum
        c = {}
        small = not self.big
        c['ndb'] = t.pick([1, 2, 3, 4, 6, 10], 'ndb')
        c['cap'] = t.pick([1, 2, 3, 4, 6, 8], 'cap')
        if small and t.draw(3, 'small_world') != 2:
            c['nclients'] = 1 + t.draw(6, 'nclients')
        else:
            c['nclients'] = 1 + t.draw(200 if self.big else 40, 'nclients')
        c['gc'] = t.pick([0.5, 0.05, 5.0, 120.0], 'gc')
        c['retries'] = t.pick([3, 0, 1], 'retries')
        c['min_conn_time'] = t.pick([0.01, 0.001, 0.05], 'min_conn_time')
        c['clat'] = t.pick([6, 0, 2, 40], 'clat')       # max connect latency, grid units
        c['dlat'] = t.pick([6, 0, 2, 40], 'dlat')
        c['hold'] = t.pick([10, 0, 2, 60], 'hold')
        c['spread'] = t.pick([40, 0, 4, 400], 'spread')  # arrival window
        c['stats_cb'] = t.draw(2, 'stats_cb') == 1
        if self.tight:
            # dense small worlds: everything happens within a few grid
            # units, so that several releases / completions / arrivals share
            # one loop iteration and the order among them is what varies
            c['ndb'] = 2 + t.draw(2, 't_ndb')
            c['cap'] = 1 + t.draw(3, 't_cap')
            c['nclients'] = 3 + t.draw(6, 't_nclients')
            c['clat'] = t.draw(3, 't_clat')
            c['dlat'] = t.draw(3, 't_dlat')
            c['hold'] = t.draw(3, 't_hold')
            c['spread'] = t.draw(4, 't_spread')
            c['gc'] = t.pick([0.5, 0.05, 5.0], 't_gc')
            # one round per client: whatever goes wrong at the last event on a
            # database is never healed by a later release there
            c['single_round'] = t.draw(2, 't_single_round') == 1
            if t.draw(2, 't_lockstep'):
                # lockstep: every delay is 0 or 1 grid unit
                c['clat'] = t.draw(2, 'l_clat')
                c['dlat'] = t.draw(2, 'l_dlat')
                c['hold'] = 1
                c['spread'] = 1
        faulty = st != 'nofault'
        # swarm: each fault kind independently enabled
        c['pfail'] = t.pick([0, 10, 40, 80], 'pfail') if faulty and t.draw(2, 'f_cfail') else 0
        c['burst'] = (faulty and t.draw(3, 'f_burst') == 2)
        c['p3d'] = t.pick([0, 10, 50], 'p3d') if faulty and t.draw(3, 'f_3d000') == 2 else 0
        c['poutage'] = t.pick([0, 20, 60], 'poutage') if faulty and t.draw(3, 'f_outage') == 2 else 0
        c['pslowc'] = t.pick([0, 5, 30], 'pslowc') if faulty and t.draw(2, 'f_slowc') else 0
        c['pslowd'] = t.pick([0, 5, 30], 'pslowd') if faulty and t.draw(2, 'f_slowd') else 0
        c['pdiscard'] = t.pick([0, 10, 50], 'pdiscard') if faulty and t.draw(2, 'f_discard') else 0
        c['nprune'] = t.draw(4, 'nprune') if faulty and t.draw(2, 'f_prune') else 0
        c['nstall'] = t.draw(3, 'nstall') if faulty and t.draw(3, 'f_stall') == 2 else 0
        c['pdfail'] = t.pick([10, 30, 60], 'pdfail') if st == 'disc_fail' else 0
        c['pcancel'] = t.pick([10, 25, 60], 'pcancel') if st in ('cancel', 'cancel_woken') else 0
        # stratum cancel_woken: a release is followed, in the same instant, by the cancellation of the request that
        # is first in line on that database - the waiter has been woken but has not run yet (draws are conditional on
        # the stratum, so the tapes of all other strata keep their meaning)
        c['pcancel_woken'] = t.pick([20, 50, 90], 'pcancel_woken') if st == 'cancel_woken' else 0
        c['nprune_all'] = 1 + t.draw(2, 'nprune_all') if st == 'prune_all' else 0
        self.cfg = c
        return c

    # -- the run -----------------------------------------------------------
    def run(self):
        t = self.tape
        c = self.draw_config()
        P, cfgmod = self.P, self.cfgmod
        cfgmod.CONNECT_FAILURE_RETRIES = c['retries']
        cfgmod.MIN_CONN_TIME_THRESHOLD = c['min_conn_time']
        self.mods['probes'].clear()
        self.nevents = 0

        loop = self.loop = SimLoop()
        loop.tie_breaker = lambda n: t.draw(n, 'tie')
        self.mods['time'].now = loop.time

        # ground truth
        self.n_connecting = 0
        self.open = set()
        self.closing = set()
        self.n_excused_live = 0      # excused conns that are still open/closing
        self.lent = {}               # conn -> client
        self.next_id = 0
        self.injected = {}           # id(exc) -> (exc, db)
        self.fail_streak = collections.Counter()   # db -> consecutive failures
        self.abort_ok = set()        # ids of exceptions that legitimately abort waiters
        self.pending_acq = {}        # client -> (db, vtime, step)
        self.acq_serial = {}         # client -> serial number of its current acquire
        self.acq_count = 0
        self.acq_fails = {}          # client -> consecutive connect failures seen while waiting
        self.sleeping = 0            # clients asleep (before acquire / holding / between rounds)
        self.ops_in_flight = 0       # operator coroutines running
        self.cancelled_clients = set()
        self.prune_all_gen = 0
        self.prune_all_active = 0
        self.max_seen = collections.Counter()
        self.contended = False
        self.served = 0
        self.errored = 0

        stats_seen = []

        def stats_cb(snap):
            stats_seen.append(snap.capacity)
            self.probes['snapshot_cb'] += 1

        kwargs = dict(connect=self.connect, disconnect=self.disconnect,
                      max_capacity=c['cap'], min_idle_time_before_gc=c['gc'])
        if c['stats_cb']:
            kwargs['stats_collector'] = stats_cb
        pool = self.pool = P.Pool(**kwargs)
        pool._loop = loop

        # client plan (all drawn up-front so that the tape prefix is the workload)
        plan = []
        maxstart = 0
        for i in range(c['nclients']):
            db = t.draw(c['ndb'], 'c_db')
            start = t.draw(c['spread'] + 1, 'c_start')
            nrounds = 1 + t.weighted([6, 2, 1] if not self.tight or c.get('single_round') else [2, 3, 3], 'c_rounds')
            if c.get('single_round'):
                nrounds = 1
            rounds = []
            for _ in range(nrounds):
                hold = t.draw(c['hold'] + 1, 'c_hold')
                disc = t.chance(c['pdiscard'], 100, 'c_discard')
                gap = t.draw(5, 'c_gap')
                samedb = t.draw(4, 'c_samedb') != 3
                rounds.append((hold, disc, gap, samedb))
            cancel_at = None
            if c['pcancel'] and t.chance(c['pcancel'], 100, 'c_cancel'):
                cancel_at = start + t.draw(60, 'c_cancel_at')
            plan.append((db, start, rounds, cancel_at))
            maxstart = max(maxstart, start)
        self.t_heal = (maxstart + 1 + t.draw(30, 'heal_after')) * GRID
        burst = None
        if c['burst']:
            b0 = t.draw(maxstart + 10, 'burst_at') * GRID
            burst = (b0, b0 + (1 + t.draw(40, 'burst_len')) * GRID, t.draw(c['ndb'] + 1, 'burst_db'))
        self.burst = burst
        self.gone_dbs = set()
        if c['p3d']:
            for d in range(c['ndb']):
                if t.chance(c['p3d'], 100, 'db_gone'):
                    self.gone_dbs.add(d)
        self.down_dbs = set()
        if c['poutage']:
            for d in range(c['ndb']):
                if t.chance(c['poutage'], 100, 'db_down'):
                    self.down_dbs.add(d)
        ops = []
        for _ in range(c['nprune']):
            ops.append(('prune', t.draw(maxstart + 30, 'prune_at') * GRID, t.draw(c['ndb'], 'prune_db')))
        for _ in range(c['nprune_all']):
            ops.append(('prune_all', t.draw(maxstart + 30, 'pa_at') * GRID, 0))
        for _ in range(c['nstall']):
            ops.append(('stall', t.draw(maxstart + 30, 'stall_at') * GRID,
                        t.pick([0.005, 0.05, 0.5, 5.0], 'stall_len')))
        self.pending_ops = len(ops)

        self.hmax = (c['hold'] + 1) * GRID
        self.cmax = (max(c['clat'], 40 if c['pslowc'] else 0) * 4 + 1) * GRID
        self.dmax = (max(c['dlat'], 40 if c['pslowd'] else 0) * 4 + 1) * GRID
        # The pool's tick period is max(average connect time, MIN_CONN_TIME_THRESHOLD).  A connect that a
        # stalled process (fault 'stall') was part of is *measured* as having taken the stall as well, so
        # after a stall of s seconds the pool may tick - and feed connection-less blocks - only every
        # cmax + s seconds until faster connects have diluted the average.  Both windows are therefore
        # expressed in ticks of that worst-case length, not of the nominal 10 ms.
        # A run whose pool ticks at the nominal pace is judged after the nominal windows (as before, and
        # cheaply: a starving run costs ~200 ticks); only while fewer than the expected number of ticks have
        # actually been executed does the judgement wait - at most until the worst-case windows are over.
        stall_total = sum(arg for kind, _, arg in ops if kind == 'stall')
        tick0 = max(self.cmax, c['min_conn_time'])
        tick = tick0 + stall_total
        self.bound_nominal = 3 * c['gc'] + 200 * tick0 + 50 * (self.hmax + self.cmax + self.dmax) + 5.0
        self.bound = 3 * c['gc'] + 200 * tick + 50 * (self.hmax + self.cmax + self.dmax) + 5.0
        self.q_since = None
        self.q_ticks = 0
        self.abandon = False
        self.report_window_nominal = 2 * self.cmax + 20 * tick0 + 0.2
        self.report_window = 2 * self.cmax + 20 * tick + 0.2
        self.tick_probe = 'Pool._tick' in self.mods.get('probes_avail', ())

        loop.after_step = self.after_step
        tasks = self.client_tasks = []
        verdict_extra = None
        try:
            with loop:
                for i, (db, start, rounds, cancel_at) in enumerate(plan):
                    task = loop.harness_task(self.client(i, db, start, rounds))
                    tasks.append(task)
                    if cancel_at is not None:
                        loop.call_at_external(cancel_at * GRID, self.cancel_client, i)
                for kind, at, arg in ops:
                    loop.call_at_external(at, self.operator, kind, arg)
                max_steps = 2_000_000 if not self.big else 10_000_000
                while True:
                    if not loop.step():
                        if self.pending_acq and self.liveness:
                            self.report_stuck('deadlock')
                        break
                    if self.violations and self.stop_on_violation():
                        break
                    if self.abandon:
                        self.probes['abandoned_stuck_run'] += 1
                        break
                    if all(tk.done() for tk in tasks) and not self.pending_ops:
                        if self.drained():
                            if self.ops_in_flight:
                                self.probes['prune_still_blocked_at_end'] += 1
                            break
                    if loop.steps > max_steps:
                        if self.liveness and self.pending_acq and self.env_passive():
                            # the pool spins without serving anybody (and
                            # without letting simulated time reach the bound)
                            self.report_stuck('livelock')
                            break
                        raise HarnessError(f'step cap exceeded at vtime={loop.time()}')
                for tk in tasks:
                    if tk.done() and not tk.cancelled() and tk.exception() is not None:
                        e = tk.exception()
                        if isinstance(e, HarnessError):
                            raise e
                        raise HarnessError(f'client task died: {e!r}') from e
                if not self.violations and not self.abandon and not self.pending_acq:
                    self.final_checks()
        finally:
            loop.after_step = None
            self.sim_time = loop.time()
            self.steps = loop.steps
            for k, v in self.mods['probes'].items():
                self.probes[k] += v
            self.probes['task_failures'] += len(loop.task_failures)
            self.probes['callback_failures'] += len(loop.callback_failures)
            self.internal_errors = (
                [repr(e) for _, e in loop.task_failures
                 if not isinstance(e, InjectedDisconnectError)][:3] +
                [repr(ctx.get('exception')) for ctx in loop.callback_failures][:3])
            self.frozen = True
            loop.shutdown()
        return self.result()

    def stop_on_violation(self):
        return True

    def drained(self):
        """All clients are done: let in-flight backend work finish so that the
        quiescent accounting invariant can be checked, but do not wait for
        GC timers that may be minutes away."""
        if self.n_connecting or self.closing or self.loop.count_unstarted():
            return False
        if self.loop.sim_tasks:
            return False
        return True

    # -- fake PostgreSQL ----------------------------------------------------
    async def connect(self, dbname):
        loop, t, c = self.loop, self.tape, self.cfg
        dbi = int(dbname[2:])
        self.next_id += 1
        cid = self.next_id
        self.n_connecting += 1
        self.ev('connect_start', dbi)
        now = loop.time()
        healed = now >= self.t_heal
        lat = t.draw(c['clat'] + 1, 'clat')
        if c['pslowc'] and not healed and t.chance(c['pslowc'], 100, 'slow_connect'):
            lat = (lat + 10) * 4
            self.faults['slow_connect'] += 1
        fail = None
        if not healed:
            if dbi in self.gone_dbs:
                fail = '3D000'
            elif dbi in self.down_dbs:
                fail = 'outage'
            elif self.burst and self.burst[0] <= now < self.burst[1] and self.burst[2] in (dbi, c['ndb']):
                fail = 'burst'
            elif c['pfail'] and t.chance(c['pfail'], 100, 'connect_fail'):
                fail = 'transient'
        fut = loop.create_future()
        loop.call_later_external(lat * GRID, self._resolve, fut)
        try:
            await fut
        finally:
            self.n_connecting -= 1
        if fail is not None:
            self.faults['connect_fail_' + fail] += 1
            self.ev('connect_fail', dbi, fail)
            if fail == '3D000':
                e = InjectedConnectError(f'database {dbname} does not exist', dbname, {'C': '3D000'})
            else:
                e = InjectedConnectError(f'injected connect failure #{cid}', dbname)
            self.injected[id(e)] = (e, dbname)
            self.fail_streak[dbname] += 1
            if fail == '3D000' or self.fail_streak[dbname] > c['retries']:
                self.abort_ok.add(id(e))
            if self.liveness:
                # L4 bookkeeping: failures seen by each waiting request itself
                owed = []
                for i, (d, _, _) in self.pending_acq.items():
                    if d == dbname:
                        n = self.acq_fails.get(i, 0) + 1
                        self.acq_fails[i] = n
                        if n == c['retries'] + 1 or (fail == '3D000' and n <= c['retries'] + 1):
                            owed.append(i)
                if owed:
                    loop.call_later(self.report_window_nominal if self.tick_probe else self.report_window,
                                    self.check_reported, dbname, owed,
                                    [self.acq_serial[i] for i in owed], loop.time(), loop.iterations,
                                    self.ticks_run())
            raise e
        self.fail_streak[dbname] = 0
        if self.acq_fails:
            for i, (d, _, _) in self.pending_acq.items():
                if d == dbname:
                    self.acq_fails.pop(i, None)
        conn = FakeConn(cid, dbname)
        self.open.add(conn)
        self.ev('connect_done', dbi)
        return conn

    def ticks_run(self):
        return self.mods['probes'].get('_tick', 0)

    def check_reported(self, dbname, owed, serials, t_fail, it_fail, ticks_fail=0):
        """L4: at t_fail the listed acquires had each, since they started
        waiting, seen more consecutive connect failures on their database
        than the retry budget (and no success): by now (a window of simulated
        time *and* of loop iterations later, so that a stalled process is not
        blamed) they must have been resolved, with the error or a connection."""
        still = [i for i, sn in zip(owed, serials)
                 if i in self.pending_acq and self.acq_serial.get(i) == sn]
        if still and self.loop.iterations - it_fail < 60:
            self.loop.call_later(self.cfg['min_conn_time'], self.check_reported,
                                 dbname, owed, serials, t_fail, it_fail, ticks_fail)
            return
        if (still and self.tick_probe and self.ticks_run() - ticks_fail < 20
                and self.loop.time() - t_fail < self.report_window):
            # the pool has not had its 20 ticks yet (its tick period follows the measured connect time,
            # which a stalled process inflates): wait, at most until the worst-case window is over
            self.loop.call_later(max(self.cfg['min_conn_time'], self.cmax), self.check_reported,
                                 dbname, owed, serials, t_fail, it_fail, ticks_fail)
            return
        if still:
            self.violate('C16', 'L4', 'exhausted-retries-not-reported',
                         f'connect to {dbname!r} failed beyond the retry budget at vtime={t_fail:.3f}, '
                         f'but {len(still)} acquire(s) waiting on it then are still blocked '
                         f'{self.loop.time() - t_fail:.2f}s ({self.ticks_run() - ticks_fail} ticks) later; blocks={self.describe_blocks()}')

    @staticmethod
    def _resolve(fut):
        if not fut.done():
            fut.set_result(None)

    async def disconnect(self, conn):
        loop, t, c = self.loop, self.tape, self.cfg
        if not isinstance(conn, FakeConn):
            self.violate('C15', 'I6', 'disconnect-unknown-object',
                         f'disconnect() called with {conn!r}, which the backend never handed out')
            return
        dbi = int(conn.db[2:])
        if conn.state != 'open':
            self.violate('C15', 'I6', 'double-disconnect',
                         f'disconnect() called on {conn!r} which is already {conn.state}')
            return
        if conn in self.lent:
            if self.prune_all_active:
                # documented exemption: prune_all_connections() "brutally"
                # closes everything, lent connections included
                conn._pruned_all = True
            else:
                self.violate('C15', 'I4', 'disconnect-lent',
                             f'disconnect() called on {conn!r} while it is lent to client {self.lent[conn]}')
        conn.state = 'closing'
        self.open.discard(conn)
        self.closing.add(conn)
        self.ev('disconnect_start', dbi)
        lat = t.draw(c['dlat'] + 1, 'dlat')
        if c['pslowd'] and loop.time() < self.t_heal and t.chance(c['pslowd'], 100, 'slow_disconnect'):
            lat = (lat + 10) * 4
            self.faults['slow_disconnect'] += 1
        dfail = bool(c['pdfail']) and loop.time() < self.t_heal and t.chance(c['pdfail'], 100, 'disconnect_fail')
        fut = loop.create_future()
        loop.call_later_external(lat * GRID, self._resolve, fut)
        try:
            await fut
        finally:
            conn.state = 'closed'
            self.closing.discard(conn)
            if conn.excused:
                self.n_excused_live -= 1
        self.ev('disconnect_done', dbi)
        if dfail:
            self.faults['disconnect_fail'] += 1
            raise InjectedDisconnectError('injected disconnect failure')

    # -- clients ---------------------------------------------------------------
    async def client(self, i, db, start, rounds):
        loop, pool, c = self.loop, self.pool, self.cfg
        self.sleeping += 1
        try:
            await loop.sleep_external(start * GRID)
        finally:
            self.sleeping -= 1
        for rno, (hold, disc, gap, samedb) in enumerate(rounds):
            if rno and not samedb:
                db = (db + 1 + rno) % c['ndb']
            dbname = f'db{db}'
            self.ev('acquire', i, db)
            if self.pending_acq:
                self.contended = True
            self.pending_acq[i] = (dbname, loop.time(), loop.steps)
            self.acq_count += 1
            self.acq_serial[i] = self.acq_count
            self.acq_fails.pop(i, None)
            try:
                conn = await pool.acquire(dbname)
            except asyncio.CancelledError:
                self.pending_acq.pop(i, None)
                self.ev('acquire_cancelled', i, db)
                return
            except Exception as e:
                self.pending_acq.pop(i, None)
                self.errored += 1
                self.ev('acquire_error', i, db)
                rec = self.injected.get(id(e))
                if rec is None:
                    self.violate('C16', 'L3', f'acquire-raised-{type(e).__name__}',
                                 f'acquire({dbname!r}) of client {i} raised {e!r}, which is not a connect failure')
                elif rec[1] != dbname:
                    self.violate('C16', 'L3', 'acquire-error-wrong-db',
                                 f'acquire({dbname!r}) raised the connect error of {rec[1]!r}')
                elif id(e) not in self.abort_ok:
                    self.violate('C16', 'L3', 'acquire-error-before-retries',
                                 f'acquire({dbname!r}) raised {e!r} although the retry budget '
                                 f'({c["retries"]}) was not exhausted')
                return
            self.pending_acq.pop(i, None)
            self.served += 1
            self.ev('acquired', i, db)
            if not isinstance(conn, FakeConn):
                self.violate('C15', 'I5', 'acquire-returned-non-connection',
                             f'acquire({dbname!r}) returned {conn!r}')
                return
            if conn in self.lent:
                self.violate('C15', 'I3', 'double-lend',
                             f'{conn!r} returned to client {i} while lent to client {self.lent[conn]}')
            if conn.db != dbname:
                self.violate('C15', 'I5', 'wrong-database',
                             f'acquire({dbname!r}) returned {conn!r}')
            if conn.excused:
                self.violate('C15', 'I4', 'lent-after-discard',
                             f'acquire({dbname!r}) returned {conn!r}, which its previous holder handed back '
                             f'as broken (discard=True): it counts as closed from that moment')
            if conn.state != 'open':
                self.violate('C15', 'I4', 'lent-not-open',
                             f'acquire({dbname!r}) returned {conn!r} which is {conn.state}')
            self.lent[conn] = i
            gen = self.prune_all_gen
            self.sleeping += 1
            try:
                await loop.sleep_external(hold * GRID)
            finally:
                self.sleeping -= 1
            self.lent.pop(conn, None)
            broken = conn.state != 'open'      # only possible after prune_all
            if disc or broken:
                if conn.state in ('open', 'closing') and not conn.excused:
                    conn.excused = True
                    self.n_excused_live += 1
                if disc:
                    self.faults['discard'] += 1
            self.ev('release', i, db)
            try:
                pool.release(dbname, conn, discard=bool(disc or broken))
            except Exception as e:
                if (gen != self.prune_all_gen or conn._pruned_all or self.prune_all_active) and isinstance(e, RuntimeError):
                    # documented: prune_all_connections() forgets lent connections
                    self.probes['release_after_prune_all'] += 1
                else:
                    self.violate('C15', 'I8', f'release-raised-{type(e).__name__}',
                                 f'release({dbname!r}, {conn!r}) of a lent connection raised {e!r}')
                    return
            if c['pcancel_woken'] and self.tape.chance(c['pcancel_woken'], 100, 'c_cancel_woken'):
                first = [j for j, rec in self.pending_acq.items() if rec[0] == dbname]
                if first:
                    self.probes['cancel_right_after_release'] += 1
                    self.cancel_client(min(first, key=self.acq_serial.get))
            if rno + 1 < len(rounds):
                self.sleeping += 1
                try:
                    await loop.sleep_external(gap * GRID)
                finally:
                    self.sleeping -= 1

    def cancel_client(self, i):
        if i in self.pending_acq and not self.client_tasks[i].done():
            self.faults['cancel_acquire'] += 1
            self.cancelled_clients.add(i)
            self.ev('cancel', i)
            self.client_tasks[i].cancel()

    # -- operator events ---------------------------------------------------------
    def operator(self, kind, arg):
        self.pending_ops -= 1
        if kind == 'stall':
            self.faults['stall'] += 1
            self.ev('stall', arg)
            self.loop.stall(arg)
        elif kind == 'prune':
            self.ops_in_flight += 1
            self.loop.harness_task(self._prune_op(arg))
        elif kind == 'prune_all':
            self.faults['prune_all'] += 1
            self.ev('prune_all')
            self.prune_all_gen += 1
            self.ops_in_flight += 1
            self.loop.harness_task(self._run_op(self.pool.prune_all_connections(), prune_all=True))

    async def _prune_op(self, dbi):
        dbname = f'db{dbi}'
        # decided at the instant the prune really starts (no await before it)
        busy = any(d == dbname for d, _, _ in self.pending_acq.values())
        if busy and self.stratum != 'prune_busy':
            # core strata: a database is only pruned while nobody waits for it
            self.probes['prune_skipped_busy'] += 1
            self.ops_in_flight -= 1
            return
        self.faults['prune_busy' if busy else 'prune'] += 1
        self.ev('prune', dbi)
        await self._run_op(self.pool.prune_inactive_connections(dbname))

    async def _run_op(self, coro, prune_all=False):
        # What prune_* itself raises is not part of C15/C16 (it may
        # legitimately surface a connect error it was waiting on); recorded
        # as a probe only.
        if prune_all:
            self.prune_all_active += 1
        try:
            await coro
        except Exception as e:
            self.probes[f'prune_raised:{type(e).__name__}'] += 1
        finally:
            self.ops_in_flight -= 1
            if prune_all:
                self.prune_all_active -= 1

    # -- invariants, after every callback ------------------------------------------
    def after_step(self):
        pool = self.pool
        cap = self.cfg['cap']
        n_open = len(self.open)
        n_closing = len(self.closing)
        true = self.n_connecting + n_open + n_closing
        if true - self.n_excused_live > cap:
            self.violate('C15', 'I1', 'capacity-exceeded',
                         f'{self.n_connecting} connecting + {n_open} open + {n_closing} closing '
                         f'- {self.n_excused_live} handed back as broken > max_capacity {cap}')
        rep = pool.current_capacity
        if rep != true:
            unstarted = self.loop.count_unstarted()
            if not (true <= rep <= true + unstarted):
                self.violate('C15', 'I2', 'reported-usage-' + ('low' if rep < true else 'high'),
                             f'pool reports {rep}, backend has {true} '
                             f'({self.n_connecting} connecting, {n_open} open, {n_closing} closing), '
                             f'{unstarted} connect task(s) not started')
        for conn in self.lent:
            if conn.state != 'open' and not getattr(conn, '_pruned_all', False):
                self.violate('C15', 'I4', 'lent-closed',
                             f'{conn!r} is lent to client {self.lent[conn]} but {conn.state}')
        if self.pending_acq:
            self.check_progress()
        elif self.q_since is not None:
            self.q_since = None

    def env_passive(self):
        """The environment owes the pool nothing more: faults have stopped,
        every holder has released, no client is about to arrive or release,
        no operator event is left.  Connects / disconnects still in flight
        are the pool's own doing and complete within cmax / dmax, far below
        the bound.  (An operator coroutine still in flight is blocked on the
        pool itself, so it does not count either.)"""
        return (not self.lent and not self.sleeping and not self.pending_ops
                and self.loop.time() >= self.t_heal)

    def check_progress(self):
        if not self.env_passive():
            self.q_since = None
            return
        now = self.loop.time()
        if self.q_since is None:
            self.q_since = now
            self.q_ticks = self.ticks_run()
            self.q_served = self.served + self.errored
            return
        if self.served + self.errored != self.q_served:
            self.q_since = now
            self.q_ticks = self.ticks_run()
            self.q_served = self.served + self.errored
            return
        if not self.liveness:
            # safety-only runs do not judge starvation; they just stop waiting
            if now - self.q_since > min(self.bound, 1.2 * self.cfg['gc'] + 1.0):
                self.abandon = True
            return
        elapsed = now - self.q_since
        if elapsed > self.bound or (self.tick_probe and elapsed > self.bound_nominal
                                    and self.ticks_run() - self.q_ticks >= 200):
            busy = self.n_connecting or self.closing or self.loop.count_unstarted()
            self.report_stuck('livelock' if busy else 'starved')

    def report_stuck(self, how):
        """An acquire() is pending, the environment offers nothing more
        (no fault, nothing in flight, every holder released, no arrivals) and
        either the loop is idle or `bound` simulated seconds passed."""
        pool = self.pool
        sig = self.stuck_signature()
        pend = sorted((d, round(t0, 3)) for d, t0, _ in self.pending_acq.values())
        self.violate(
            'C16', 'L1' if how == 'deadlock' else 'L2', f'{how}:{sig}',
            f'acquire() still pending for {pend} at vtime={self.loop.time():.3f} '
            f'(quiescent since {self.q_since}, bound {self.bound:.1f}s); '
            f'pool: capacity {pool.current_capacity}/{self.cfg["cap"]}, '
            f'starving={getattr(pool, "_is_starving", "?")}, blocks={self.describe_blocks()}')

    def describe_blocks(self):
        out = []
        try:
            for name, b in self.pool._blocks.items():
                out.append(f'{name}(conns={len(b.conns)},pending={b.pending_conns},idle={len(b.conn_stack)},'
                           f'waiters={b.count_waiters()},quota={b.quota},supp={int(b.suppressed)})')
        except Exception:
            return 'unavailable'
        return ' '.join(out)

    def stuck_signature(self):
        """Mechanism-level signature of a stuck state, from pool observables.
        Degrades to 'opaque' if the internals were renamed."""
        try:
            pool = self.pool
            cap = self.cfg['cap']
            blocks = list(pool._blocks.values())
            waiting = [b for b in blocks if b.count_waiters()]
            parts = []
            parts.append('spare' if pool.current_capacity < cap else 'full')
            parts.append('starving' if pool._is_starving else 'calm')
            if any(b.count_waiters() and not len(b.conns) and not b.pending_conns for b in blocks):
                parts.append('waiters-without-conn')
            if any(b.count_waiters() and b.pending_conns and not self.n_connecting for b in blocks):
                parts.append('phantom-pending')
            if any(len(b.conn_stack) and not b.count_waiters() for b in blocks):
                parts.append('idle-elsewhere')
            if any(len(b.conn_stack) and b.count_waiters() for b in blocks):
                parts.append('idle-with-waiters')
            if any(b.suppressed and b.count_waiters() for b in blocks):
                parts.append('suppressed-waiters')
            if self.n_connecting or self.closing:
                parts.append('churning')
            if len(blocks) <= 1:
                parts.append('single-block')
            if not waiting:
                parts.append('no-block-waiters')
            return ','.join(parts)
        except Exception:
            return 'opaque'

    def final_checks(self):
        """I7: with nothing in flight the books must balance exactly."""
        pool = self.pool
        if self.n_connecting or self.closing or self.loop.count_unstarted() or self.loop.sim_tasks:
            return
        n_open = len(self.open)
        if pool.current_capacity != n_open:
            self.violate('C15', 'I7', 'quiescent-capacity-mismatch',
                         f'nothing in flight: pool reports {pool.current_capacity}, backend has {n_open} open')
        try:
            known = list(pool.iterate_connections())
        except Exception:
            known = None
        if known is not None:
            ks = set(known)
            if len(ks) != len(known):
                self.violate('C15', 'I7', 'connection-listed-twice',
                             'iterate_connections() yields a connection twice')
            if ks != self.open:
                lost = sorted(repr(x) for x in self.open - ks)
                ghost = sorted(repr(x) for x in ks - self.open)
                self.violate('C15', 'I7', 'quiescent-set-mismatch',
                             f'open on the backend but unknown to the pool: {lost}; '
                             f'known to the pool but not open: {ghost}')
        try:
            if pool.active_conns != n_open:
                self.violate('C15', 'I7', 'quiescent-active-mismatch',
                             f'active_conns={pool.active_conns}, backend has {n_open} open')
        except Exception:
            pass

    # -- result --------------------------------------------------------------------
    def result(self):
        probes = dict(self.probes)
        return {
            'violations': self.violations,
            'digest': int.from_bytes(self.h.digest(), 'big'),
            'nontrivial': bool(self.contended),
            'steps': self.steps,
            'sim_time': self.sim_time,
            'faults': dict(self.faults),
            'probes': probes,
            'served': self.served,
            'errored': self.errored,
            'config': dict(self.cfg),
            'internal_errors': self.internal_errors,
            'trace': self.trace,
            'bound': self.bound,
        }


def run(tape, **opts):
    return World(tape, **opts).run()
