"""Island for the compiler pool (C17).

Everything under edb/server/compiler_pool/ is loaded for real from the
working tree.  The modules *outside* that package that it imports and that
cannot be imported here (native parser, Cython) are served by the explicit,
hand-written fakes below; every fake is listed in the evidence as a stub.
One process hosts exactly one island.
"""
from __future__ import annotations

import importlib
import importlib.abc
import importlib.machinery
import os
import pickle as real_pickle
import sys
import types

from sim import island

REPO = island.REPO

# ---------------------------------------------------------------------------
# boundary fakes
# ---------------------------------------------------------------------------

SIM = None   # the running world; set per run


class InjectedCompileError(Exception):
    """Stands for any error raised by the compiler proper."""


class _Picklable:
    def __init__(self, **kw):
        self.__dict__.update(kw)

    def __eq__(self, o):
        return type(o) is type(self) and o.__dict__ == self.__dict__

    def __repr__(self):
        return f'{type(self).__name__}({self.__dict__})'


class FakeTxState(_Picklable):
    """Stands for dbstate.CompilerConnectionState: remembers the root user
    schema it was given and the requests it has seen.  Like the real one it does
    NOT carry the root user schema through pickling (``__getstate__`` drops it,
    ``root_user_schema`` asserts that somebody has set it again)."""

    def __getstate__(self):
        d = dict(self.__dict__)
        d['root'] = None
        return d

    def __setstate__(self, d):
        self.__dict__.update(d)

    @property
    def root_user_schema(self):
        assert self.root is not None
        return self.root

    def set_root_user_schema(self, us):
        self.root = us


class GqlOp(_Picklable):
    pass


class CompilationRequest(_Picklable):
    pass


class EchoCompiler:
    """Stands for compiler.Compiler: every entry point reports exactly the
    state arguments it was invoked with (that is the C17 observation point)."""

    def __init__(self, wk):
        self.wk = wk
        self.state = types.SimpleNamespace(compilation_config_serializer='cfgser')

    def _echo(self, method, us, gs, rc, dc, sc, tag, opts):
        SIM.on_compiler_entry(self.wk, method, tag)
        if opts.get('fail'):
            SIM.faults['compile_error'] += 1
            raise InjectedCompileError(tag)
        return ('echo', method, tag, us, gs, rc, dc, sc)

    def compile_serialized_request(self, us, gs, rc, dc, sc, tag, opts):
        e = self._echo('compile', us, gs, rc, dc, sc, tag, opts)
        cstate = None
        if opts.get('tx'):
            cstate = FakeTxState(root=us, txid=opts['tx'], seen=[tag])
        return e, cstate

    def compile_serialized_request_in_tx(self, cstate, txid, tag, opts):
        SIM.on_compiler_entry(self.wk, 'compile_in_tx', tag)
        if opts.get('fail'):
            # a compile error half-way may already have touched the live state
            cstate.seen = cstate.seen + [('failed', tag)]
            raise InjectedCompileError(tag)
        e = ('echo_tx', tag, cstate.root_user_schema, cstate.txid, list(cstate.seen), txid)
        cstate.seen = cstate.seen + [tag]
        return e, cstate

    def compile_notebook(self, us, gs, rc, dc, sc, tag, opts):
        return self._echo('compile_notebook', us, gs, rc, dc, sc, tag, opts)

    def compile_sql(self, us, gs, rc, dc, sc, tag, opts):
        return self._echo('compile_sql', us, gs, rc, dc, sc, tag, opts)

    def compile(self, *, user_schema, global_schema, reflection_cache,
                database_config, system_config, request):
        # second half of compile_graphql
        return ('echo', 'compile_graphql/compile', request.source[1], user_schema,
                global_schema, reflection_cache, database_config, system_config), None

    def interpret_backend_error(self, tag, opts):
        SIM.on_compiler_entry(self.wk, 'interpret_backend_error', tag)
        if opts.get('fail'):
            raise InjectedCompileError(tag)
        return ('simple', tag)


def _fake_modules():
    mods = {}

    def mod(name, package=False, **attrs):
        m = types.ModuleType(name)
        m.__dict__.update(attrs)
        if package:
            m.__path__ = []
        m.__verif_fake__ = True
        mods[name] = m
        return m

    mod('edb.server.dbview', DatabaseIndex=type('DatabaseIndex', (), {}))
    mod('edb.schema.schema', FlatSchema=type('FlatSchema', (), {}),
        ChainedSchema=type('ChainedSchema', (), {}), Schema=type('Schema', (), {}))
    mod('edb.server.config', SettingValue=type('SettingValue', (), {}))

    class Source:
        @staticmethod
        def from_string(s):
            return ('source', s)

    def generate_source(ast, pretty=False):
        return ast

    mod('edb.edgeql', package=True, Source=Source, generate_source=generate_source)
    mod('edb.edgeql.parser', preload_spec=lambda *a, **k: None)

    def compile_graphql(std, us, gs, dc, sc, tag, opts):
        SIM.on_compiler_entry(None, 'compile_graphql', tag)
        if opts.get('fail'):
            raise InjectedCompileError(tag)
        return GqlOp(edgeql_ast=tag, echo=('echo', 'compile_graphql', tag, us, gs, dc, sc))

    mod('edb.graphql', compile_graphql=compile_graphql, TranspiledOperation=GqlOp)

    _uuid = [0]

    def uuid4():
        _uuid[0] += 1
        return _uuid[0]

    mod('edb.common.uuidgen', uuid4=uuid4, UUID=int)

    def new_compiler(*a, **k):
        return EchoCompiler(SIM.current_worker)

    fmt = types.SimpleNamespace(JSON='JSON', BINARY='BINARY')
    mod('edb.server.compiler', package=True, new_compiler=new_compiler,
        Compiler=EchoCompiler, CompilationRequest=CompilationRequest,
        OutputFormat=fmt, InputFormat=fmt, QueryUnitGroup=tuple,
        dbstate=types.SimpleNamespace(CompilerConnectionState=FakeTxState))
    mod('edb.common.markup', dump=lambda *a, **k: None)
    return mods


STUB_DESCRIPTIONS = [
    'edb.server.compiler -> EchoCompiler (reports the state arguments each entry point received; optional injected compile error); the transaction state it hands out mirrors dbstate.CompilerConnectionState as far as the pool code can see it: set_root_user_schema / root_user_schema, the root user schema is dropped by pickling',
    'edb.graphql.compile_graphql -> echo', 'edb.edgeql.Source/generate_source -> identity',
    'edb.server.dbview.DatabaseIndex -> simulated server state (get_cached_compiler_args)',
    'edb.schema.schema, edb.server.config -> empty type shells (annotations only)',
    'edb.common.uuidgen.uuid4 -> counter', 'edb.common.markup.dump, edb.edgeql.parser.preload_spec -> no-op',
    'socket (worker side of the unix socket, under the real amsg.WorkerConnection) -> in-memory byte buffers; asyncio transport -> FakeTransport',
    'loop.create_unix_server / loop.subprocess_exec -> simulator (spawns simulated worker processes)',
    'pickle module attribute of pool.py / worker.py / multitenant_worker.py / worker_proc.py -> pass-through proxy with fault points',
    'time.monotonic, os.kill of pool.py -> simulated clock / simulated process table',
    'remote strata: loop.create_connection -> simulated network link (per-direction FIFO byte streams, drawn latency, fragmentation, drops, refused connects); os.getpid/os.environ of server.py -> constants',
]


class _Finder(importlib.abc.MetaPathFinder, importlib.abc.Loader):
    def __init__(self, fakes):
        self.fakes = fakes

    def find_spec(self, name, path, target=None):
        if name in self.fakes:
            return importlib.machinery.ModuleSpec(
                name, self, is_package=hasattr(self.fakes[name], '__path__'))
        if name == 'edb.schema':
            # enter the package without running its __init__ (which imports
            # the native parser); submodules such as edb.schema.defines load
            # from the real directory
            return importlib.machinery.ModuleSpec(name, self, is_package=True)
        return None

    def create_module(self, spec):
        if spec.name == 'edb.schema':
            m = types.ModuleType('edb.schema')
            m.__path__ = [os.path.join(REPO, 'edb/schema')]
            return m
        return self.fakes[spec.name]

    def exec_module(self, module):
        pass


_state = {}


def load(patches=None):
    """Import the real compiler_pool package (once per process) and return
    the module objects plus the compiled worker sources."""
    if _state:
        if _state['patches_key'] != _key(patches):
            raise RuntimeError('one process hosts one island / one mutant')
        return _state
    if REPO not in sys.path:
        sys.path.insert(0, REPO)
    fakes = _fake_modules()
    sys.meta_path.insert(0, _Finder(fakes))

    pkg = 'edb.server.compiler_pool'
    patched = {}
    for rel in ('pool', 'queue', 'state', 'amsg', 'worker_proc', 'worker', 'multitenant_worker', 'server'):
        relpath = f'edb/server/compiler_pool/{rel}.py'
        src = island.read_source(relpath)
        newsrc = island.apply_patches(src, patches, relpath)
        patched[rel] = newsrc

    importlib.import_module('edb.server')         # real package __init__ (empty-ish)
    cp = types.ModuleType(pkg)                    # do not run the package __init__ (imports server.py)
    cp.__path__ = [os.path.join(REPO, 'edb/server/compiler_pool')]
    cp.__package__ = pkg
    sys.modules[pkg] = cp

    mods = {}
    for rel in ('state', 'amsg', 'queue', 'worker_proc', 'pool', 'server'):
        name = f'{pkg}.{rel}'
        m = types.ModuleType(name)
        m.__file__ = os.path.join(REPO, f'edb/server/compiler_pool/{rel}.py')
        m.__package__ = pkg
        sys.modules[name] = m
        setattr(cp, rel, m)
        code = compile(patched[rel], m.__file__, 'exec', dont_inherit=True)
        exec(code, m.__dict__)
        mods[rel] = m
    wcode = {rel: compile(patched[rel], os.path.join(REPO, f'edb/server/compiler_pool/{rel}.py'),
                          'exec', dont_inherit=True)
             for rel in ('worker', 'multitenant_worker')}
    # what a freshly started compiler-server process executes for its module-level counters
    # (re-evaluated by the simulator every time it "starts" that process)
    import ast
    server_init = {}
    for node in ast.parse(patched['server']).body:
        if (isinstance(node, ast.Assign) and len(node.targets) == 1 and isinstance(node.targets[0], ast.Name)
                and node.targets[0].id in ('_client_id_seq', '_tx_state_id_seq')):
            server_init[node.targets[0].id] = compile(ast.Expression(node.value), '<server.py module level>', 'eval')
    # seams
    null = island.NullLogger()
    mods['pool'].logger = null
    mods['pool'].log_metrics = null
    tp = island.TimeProxy()
    mods['pool'].time = tp
    mods['server'].time = tp
    mods['server'].logger = null
    _state.update(mods=mods, wcode=wcode, time=tp, fakes=fakes, patches_key=_key(patches), server_init=server_init,
                  real_modules=sorted(n for n, m in sys.modules.items()
                                      if n.startswith('edb.') and not getattr(m, '__verif_fake__', False)))
    return _state


def _key(patches):
    return repr(patches)


_wcount = [0]


def new_worker_module(kind):
    """A fresh module object per simulated worker *process*: its own DBS,
    GLOBAL_SCHEMA, INSTANCE_CONFIG, LAST_STATE, clients, COMPILER."""
    _wcount[0] += 1
    pkg = 'edb.server.compiler_pool'
    m = types.ModuleType(f'{pkg}.{kind}__proc{_wcount[0]}')
    m.__package__ = pkg
    m.__file__ = os.path.join(REPO, f'edb/server/compiler_pool/{kind}.py')
    exec(_state['wcode'][kind], m.__dict__)
    return m


class PickleProxy:
    """Pass-through ``pickle`` with a fault hook."""
    PicklingError = real_pickle.PicklingError
    UnpicklingError = real_pickle.UnpicklingError
    PickleError = real_pickle.PickleError
    HIGHEST_PROTOCOL = real_pickle.HIGHEST_PROTOCOL
    DEFAULT_PROTOCOL = real_pickle.DEFAULT_PROTOCOL

    def __init__(self, site, hook):
        self.site = site
        self.hook = hook

    def loads(self, data, *a, **k):
        self.hook(self.site, 'loads', data)
        return real_pickle.loads(data, *a, **k)

    def dumps(self, obj, *a, **k):
        self.hook(self.site, 'dumps', obj)
        return real_pickle.dumps(obj, *a, **k)

    def __getattr__(self, name):
        # everything else of the module, untouched (a seam must not be narrower than what it replaces)
        return getattr(real_pickle, name)
