"""C09, pooled mode: the same client sessions, server model and PostgreSQL model
as worlds/txstate.py, but every compile goes through the REAL compiler pool
(edb/server/compiler_pool/pool.py + queue.py + amsg.py) to REAL worker modules
(worker.py, one instance per simulated process) that run the REAL compiler
transaction code.  Several sessions share the workers, so which worker serves
a request, whether REUSE_LAST_STATE_MARKER is sent, what the worker's DBS
holds and what a crashed worker takes with it are all decided by the real
routing logic under simulated latencies and crashes.

Each session works on its own database, so the sessions' PostgreSQL models
stay independent; they interact only through the shared workers.
"""
from __future__ import annotations

import collections
import pickle

import immutables

from sim.loop import HarnessError
from worlds import cpool, txstate, tx_island

MS = 0.001


class _IslandAdapter:
    """What cpool.World expects from its island module."""
    SIM = None
    PickleProxy = tx_island.PickleProxy
    new_worker_module = staticmethod(tx_island.new_worker_module)

    @staticmethod
    def load(patches=None):
        isl = tx_island.load(patches)
        view = dict(isl)
        view['tx_time'] = isl['time']
        view['time'] = isl['mods']['pool_time']
        return view


class Session(txstate.World):
    """One client session; compiles are suspended and handed to the world."""

    def __init__(self, world, idx):
        self.world = world
        self.idx = idx
        self.dbname = f'db{idx}'
        self.tape = world.tape
        self.stratum = 'pooled'
        self.record = world.record
        self.isl = world.isl
        self.violations = world.violations
        self.faults = world.faults
        self.probes = world.probes
        self.step = 0
        isl = self.isl
        U0 = isl['FlatSchema'](f'U{idx}', modules=('default', 'std'))
        self.G0 = None
        self.dv = txstate.Driver(isl, U0)
        self.m = txstate.Model(txstate.St((f'U{idx}', frozenset(['default', 'std'])), isl['DEFAULT_ALIASES'], isl['EMPTY']))
        self.global_ddl = False
        self.flags = set()
        self.nserial = 0
        self.in_block_steps = 0
        self.last_sp_id = 0
        self.hist = []
        self.cfg = world.session_cfg

    def ev(self, *a):
        self.world.ev('s%d' % self.idx, *[str(x) for x in a][:3])

    def violate(self, kind, signature, detail):
        if any(v['kind'] == kind and v['signature'] == signature for v in self.violations):
            return
        self.violations.append({'property': 'C09', 'kind': kind, 'signature': 'pooled:' + signature,
                                'detail': f'session {self.idx} ({self.dbname}): {detail}',
                                'step': self.world.loop.steps, 'vtime': round(self.world.loop.time(), 6)})

    def new_request_key(self):
        self.world.next_tag += 1
        return self.world.next_tag

    def compile_message(self, stmts):
        isl, dv = self.isl, self.dv
        req = isl['Req'](stmts, modaliases=dv.get_modaliases(), session_config=dv.get_config(),
                         key=self.obs_key)
        # dbview._compile() (dbview.pyx:1630-1672)
        ug, blob = yield (self, self.obs_key, req)
        dv.last_comp_state = blob
        return ug


class World(cpool.World):

    def island_module(self):
        return _IslandAdapter

    def draw_config(self):
        t = self.tape
        st = self.stratum
        faulty = st != 'pooled_nofault'
        c = {
            'pool': t.pick(['fixed', 'adaptive'], 'pool_kind'),
            'nworkers': 1 + t.draw(3, 'nworkers'),
            'ntenants': 1, 'cache_size': 1, 'ndb': 0,
            'nsessions': 1 + t.draw(3, 'nsessions'),
            'nsteps': 3 + t.draw(10, 'nsteps'),
            'svc': t.pick([4, 0, 20], 'svc'),
            'think': t.pick([5, 0, 30], 'think'),
            'frag': t.draw(3, 'frag') == 2,
            'pcrash': t.pick([0, 3, 10], 'pcrash') if faulty and t.draw(2, 'f_crash') else 0,
            'nidlecrash': t.draw(3, 'nidlecrash') if faulty and t.draw(3, 'f_idlecrash') == 2 else 0,
            'pslow': t.pick([0, 5, 20], 'pslow') if faulty and t.draw(2, 'f_slow') else 0,
            'ntemplatecrash': t.draw(2, 'ntemplatecrash') if faulty and t.draw(4, 'f_tmpl') == 3 else 0,
            'pcerr': 0, 'psync': 0, 'pdecode': 0, 'preply': 0, 'pstuck': 0, 'longpause': False,
            'ndrop': 0, 'pcancel': 0, 'ppool': 0, 'pmutate': 0, 'nreq': 0, 'nclients': 0,
        }
        self.session_cfg = {
            'nsteps': c['nsteps'],
            'pbefail': t.pick([0, 10, 30], 'pbefail') if faulty else 0,
            'preject': t.pick([0, 10, 30], 'preject') if faulty else 0,
            'proute': 0,
            'pscript': t.pick([0, 10], 'pscript') if faulty else 0,
            'exotic': False,
        }
        c.update({'s_' + k: v for k, v in self.session_cfg.items()})
        self.cfg = c
        return c

    def build_server(self):
        c, loop, P = self.cfg, self.loop, self.mods['pool']
        isl = self.isl
        ticks = [1000]

        def now():
            ticks[0] += 1
            return ticks[0] * 1e-6
        isl['tx_time'].now = now          # deterministic transaction ids in dbstate
        isl['requests'].clear()
        isl['observed'].clear()
        self.G_pickle = pickle.dumps(isl['FlatSchema']('G0'), -1)
        self.E = isl['EMPTY']
        self.sessions = [Session(self, i) for i in range(c['nsessions'])]
        common = dict(loop=loop, runstate_dir='/sim', backend_runtime_params=None,
                      std_schema=isl['FlatSchema']('std'), refl_schema=None, schema_class_layout=None)
        if c['pool'] == 'fixed':
            pool = P.FixedPool(pool_size=c['nworkers'], dbindex=self, **common)
        else:
            pool = P.SimpleAdaptivePool(pool_size=max(c['nworkers'], 2), dbindex=self, **common)
        self.pool = pool
        self.wkind = 'worker'

    # DatabaseIndex.get_cached_compiler_args()
    def get_cached_compiler_args(self):
        S = self.mods['state']
        dbs = immutables.Map({s.dbname: S.PickledDatabaseState(s.dv.db_user_schema_pickle, self.E, self.E)
                              for s in self.sessions})
        return dbs, self.G_pickle, self.E

    async def main(self):
        c, t, loop = self.cfg, self.tape, self.loop
        await self.pool.start()
        self.pool_started = True
        self.ev('pool_started', len(getattr(self.pool, '_workers', ())))
        for s in self.sessions:
            self.client_tasks.append(loop.harness_task(self.session_task(s)))
        horizon = c['nsteps'] * (c['think'] + c['svc'] + 2)
        for _ in range(c['nidlecrash']):
            loop.call_later_external(t.draw(horizon + 1, 'idlecrash_at') * MS, self.idle_crash,
                                     t.draw(8, 'idlecrash_which'))
        for _ in range(c['ntemplatecrash']):
            loop.call_later_external(t.draw(horizon + 1, 'tmpl_at') * MS, self.template_crash)
        import asyncio
        await asyncio.wait(self.client_tasks)
        for tk in self.client_tasks:
            if not tk.cancelled() and tk.exception() is not None:
                raise tk.exception()
        self.stopping = True
        await self.pool.stop()

    async def session_task(self, s):
        c, t, loop = self.cfg, self.tape, self.loop
        for s.step in range(c['nsteps']):
            await loop.sleep_external(t.draw(c['think'] + 1, 'think') * MS)
            stmts, kinds = s.draw_message()
            gen = s.one_message(stmts, kinds)
            try:
                item = next(gen)
                while True:
                    try:
                        res = await self.do_compile(*item)
                    except txstate.InfraFailure as e:
                        item = gen.throw(e)
                    except HarnessError:
                        raise
                    except Exception as e:
                        item = gen.throw(e)
                    else:
                        item = gen.send(res)
            except StopIteration:
                pass
            if self.violations:
                return

    async def do_compile(self, s, rid, req):
        dv = s.dv
        self.isl['requests'][rid] = req
        self.req_meta[rid] = {'method': 'compile_in_tx' if dv.in_tx else 'compile',
                              'injected': set(), 'worker': None}
        if self.inflight:
            self.contended = True
        self.inflight += 1
        self.ev('call', s.idx, self.req_meta[rid]['method'], rid)
        try:
            if dv.in_tx:
                self.probes['compile_in_tx'] += 1
                units, blob, _ = await self.pool.compile_in_tx(
                    s.dbname, dv.in_tx_root_user_schema_pickle, dv.txid, dv.last_comp_state, 0,
                    rid, 'q', dv.tx_error)
            else:
                units, blob, _ = await self.pool.compile(
                    s.dbname, dv.db_user_schema_pickle, self.G_pickle, self.E, self.E, self.E,
                    rid, 'q')
        except (ConnectionError, RuntimeError) as e:
            meta = self.req_meta[rid]
            if isinstance(e, ConnectionError) and 'killed' in meta['injected'] or 'unexpectedly closed' in str(e):
                self.ev('done', s.idx, 'lost', rid)
                self.faults['request_lost_with_worker'] += 1
                raise txstate.InfraFailure(repr(e)) from None
            raise
        finally:
            self.inflight -= 1
            self.req_meta[rid]['done'] = True
            self.isl['requests'].pop(rid, None)
        self.ok += 1
        self.ev('done', s.idx, 'ok', rid)
        return units, blob

    def tag_of(self, methname, args):
        if methname == 'compile' and len(args) >= 2 and args[-2] in self.req_meta:
            return args[-2]
        if methname == 'compile_in_tx' and len(args) >= 3 and args[-3] in self.req_meta:
            return args[-3]
        return None

    def audit(self, when):
        pass        # belief == actual is C17's business; schemas here have no value equality

    def result(self):
        r = super().result()
        r['nontrivial'] = any(s.in_block_steps for s in getattr(self, 'sessions', ()))
        r['history'] = {f's{s.idx}': list(s.hist) for s in getattr(self, 'sessions', ())}
        r['served'] = self.ok
        return r


def run(tape, **opts):
    return World(tape, **opts).run()
