"""C09 world: the real compiler transaction machinery (dbstate.Transaction,
CompilerConnectionState, Compiler.compile / compile_in_tx and everything below
them down to _make_query_unit) driven by

  * a *model* of the server side (a transcription of the dbview.pyx /
    execute.pyx / binary.pyx blocks the property names as reference), and
  * a *model* of PostgreSQL transaction / savepoint semantics which is both
    the oracle and the source of execution-time failures.

The state blob travels between the two parties exactly as in production
(pickled after each successful compile, or the same live object when the
same worker serves the next request).
"""
from __future__ import annotations

import collections
import hashlib
import pickle
import typing

from sim.loop import HarnessError
from worlds import tx_island

STRATA = ('core', 'nofault', 'exotic', 'deep', 'migration', 'migration_nofault', 'refusal')
NAMES = ('a', 'b')
MODS = ('m1', 'm2', 'm3')
CFGS = ('c1', 'c2')


class Driver:
    """Transcription of the server side.  Each block cites its source."""

    def __init__(self, isl, schema):
        self.isl = isl
        self.db_user_schema = schema               # dbview.Database.user_schema_pickle (unpickled)
        self.db_user_schema_pickle = pickle.dumps(schema, -1)   # ... and the bytes object itself
        self.global_schema = isl['FlatSchema']('G0', modules=())    # DatabaseIndex._global_schema_pickle (unpickled)
        self.modaliases = isl['DEFAULT_ALIASES']   # DatabaseConnectionView._modaliases
        self.config = isl['EMPTY']                 # ._config (session config)
        self.last_comp_state = None                # ._last_comp_state
        self.live = None                           # the worker's LAST_STATE (live object)
        self.live_for = None                       # the blob that live object corresponds to
        self.reset_tx_state()

    # dbview.pyx:615-640  _reset_tx_state()
    def reset_tx_state(self):
        self.txid = None
        self.in_tx = False
        self.in_tx_config = None
        self.in_tx_modaliases = None
        self.in_tx_savepoints = []
        self.in_tx_root_user_schema = None
        self.in_tx_root_user_schema_pickle = None
        self.in_tx_user_schema = None
        self.in_tx_global_schema = None
        self.tx_error = False

    # dbview.pyx get_modaliases/set_modaliases, get_session_config/set_session_config
    def get_modaliases(self):
        return self.in_tx_modaliases if self.in_tx else self.modaliases

    def set_modaliases(self, m):
        if self.in_tx:
            self.in_tx_modaliases = m
        else:
            self.modaliases = m

    def get_config(self):
        return self.in_tx_config if self.in_tx else self.config

    def set_config(self, c):
        if self.in_tx:
            self.in_tx_config = c
        else:
            self.config = c

    # dbview.pyx:643-662  rollback_tx_to_savepoint()
    def rollback_tx_to_savepoint(self, name):
        self.tx_error = False
        while self.in_tx_savepoints:
            if self.in_tx_savepoints[-1][0] == name:
                break
            self.in_tx_savepoints.pop()
        else:
            raise RuntimeError(f'savepoint {name} not found')
        _, spid, (modaliases, config) = self.in_tx_savepoints[-1]
        self.txid = spid
        self.set_modaliases(modaliases)
        self.set_config(config)

    # dbview.pyx:664-672  declare_savepoint()
    def declare_savepoint(self, name, spid):
        self.in_tx_savepoints.append((name, spid, (self.get_modaliases(), self.get_config())))

    # dbview.pyx:1026-1060  start() / start_tx() / _apply_in_tx()
    def start(self, unit):
        if self.tx_error:
            raise self.isl['errors'].TransactionError('current transaction is aborted')
        if unit.tx_id is not None:
            self.txid = unit.tx_id
            self.start_tx()
        if self.in_tx:
            self.apply_in_tx(unit)

    # dbview.pyx:1036-1051  start_tx()
    def start_tx(self):
        self.in_tx = True
        self.in_tx_config = self.config
        self.in_tx_modaliases = self.modaliases
        self.in_tx_root_user_schema = self.db_user_schema
        self.in_tx_root_user_schema_pickle = self.db_user_schema_pickle
        self.in_tx_user_schema = self.db_user_schema
        self.in_tx_global_schema = self.global_schema

    # dbview.pyx:1053-1071  _apply_in_tx()
    def apply_in_tx(self, unit):
        if unit.user_schema is not None:
            self.in_tx_user_schema = pickle.loads(unit.user_schema)
        if unit.global_schema is not None:
            self.in_tx_global_schema = pickle.loads(unit.global_schema)

    # dbview.pyx get_global_schema_pickle()
    def get_global_schema(self):
        return self.in_tx_global_schema if self.in_tx else self.global_schema

    # dbview.pyx:1073-1080  start_implicit()
    def start_implicit(self, unit):
        if self.tx_error:
            raise self.isl['errors'].TransactionError('current transaction is aborted')
        if not self.in_tx:
            self.start_tx()
        self.apply_in_tx(unit)

    # dbview.pyx:1166-1206  commit_implicit_tx()
    def commit_implicit_tx(self, user_schema, global_schema=None):
        assert self.in_tx
        self.config = self.in_tx_config
        self.modaliases = self.in_tx_modaliases
        if user_schema is not None:
            self.db_user_schema = pickle.loads(user_schema)
            self.db_user_schema_pickle = user_schema
        if global_schema is not None:
            self.global_schema = pickle.loads(global_schema)
        self.reset_tx_state()

    # dbview.pyx:1077-1160  on_success()
    def on_success(self, unit):
        if not self.in_tx:
            if unit.user_schema is not None:
                self.db_user_schema = pickle.loads(unit.user_schema)
                self.db_user_schema_pickle = unit.user_schema
            if unit.global_schema is not None:
                self.global_schema = pickle.loads(unit.global_schema)
        if unit.modaliases is not None:
            self.set_modaliases(unit.modaliases)
        if unit.tx_commit:
            if not self.in_tx:
                raise self.isl['errors'].InternalServerError('"commit" outside of a transaction')
            self.config = self.in_tx_config
            self.modaliases = self.in_tx_modaliases
            if unit.user_schema is not None:
                self.db_user_schema = pickle.loads(unit.user_schema)
                self.db_user_schema_pickle = unit.user_schema
            if unit.global_schema is not None:
                self.global_schema = pickle.loads(unit.global_schema)
            self.reset_tx_state()
        elif unit.tx_rollback:
            self.reset_tx_state()


class St(typing.NamedTuple):
    """What a PostgreSQL-style transaction exposes at one point."""
    schema: tuple          # (user schema tag, frozenset of modules)
    aliases: typing.Any
    config: typing.Any
    gschema: tuple = ('G0', frozenset())    # (global schema tag, frozenset of roles)
    mig: typing.Any = None                  # Mig while a migration block is open
    rw: typing.Any = None                   # Rw while a migration rewrite block is open


ROLES = ('r1', 'r2')


class Mig(typing.NamedTuple):
    """A migration block in progress (EdgeDB-level overlay on the PostgreSQL-style state:
    none of its DDL has reached the backend yet)."""
    target: frozenset      # modules of the target schema
    start: tuple           # (tag, modules) of the schema at START MIGRATION
    own_tx: bool           # START MIGRATION opened the transaction itself
    order: int             # savepoint counter at START MIGRATION
    ttag: str = ''         # tag of the target schema object (what COMMIT MIGRATION adopts inside a rewrite)


class Rw(typing.NamedTuple):
    """A MIGRATION REWRITE block in progress: the schema is rebuilt from scratch in the compiler
    only; the backend keeps the schema the block started from."""
    start: tuple           # (tag, modules) of the schema at START MIGRATION REWRITE
    own_tx: bool
    order: int
    nmig: int = 0          # migrations recorded so far (COMMIT MIGRATION REWRITE applies them)


class _BackendFailure(Exception):
    pass


class InfraFailure(Exception):
    """Pooled mode: the compile request was lost with its worker (or the
    like).  The client sees an error; nothing was compiled, nothing executed."""


class Model:
    """PostgreSQL-style transaction semantics over the opaque triple
    (schema: (tag, modules), aliases, session config)."""

    def __init__(self, triple):
        self.base = triple
        self.in_tx = False
        self.err = False         # the server refuses everything but a rollback (error seen in this block)
        self.pg_err = False      # ... and the backend transaction itself is aborted (a unit failed in it)
        self.cur = None
        self.state0 = None
        self.sps = []            # [(name, triple)]

    def current(self):
        return self.cur if self.in_tx else self.base

    def set(self, triple):
        if self.in_tx:
            self.cur = triple
        else:
            self.base = triple


class World:
    def __init__(self, tape, *, stratum='core', mutant=None, record=False):
        self.tape = tape
        self.stratum = stratum
        self.record = record
        self.isl = tx_island.load(mutant['patches'] if mutant else None)
        self.violations = []
        self.trace = [] if record else None
        self.faults = collections.Counter()
        self.probes = collections.Counter()
        self.h = hashlib.blake2b(digest_size=8)
        self.step = 0

    def ev(self, *a):
        self.h.update(('|'.join(str(x) for x in a) + ';').encode())
        if self.trace is not None:
            self.trace.append((self.step,) + a)

    def violate(self, kind, signature, detail):
        if any(v['kind'] == kind and v['signature'] == signature for v in self.violations):
            return
        self.violations.append({'property': 'C09', 'kind': kind, 'signature': signature,
                                'detail': detail, 'step': self.step, 'vtime': 0.0})

    # -- the run ---------------------------------------------------------------
    def run(self):
        isl, t = self.isl, self.tape
        qlast, errors = isl['qlast'], isl['errors']
        C = isl['C']
        ticks = [1000]

        def now():
            ticks[0] += 1
            return ticks[0] * 1e-6
        isl['time'].now = now

        st = self.stratum
        faulty = st not in ('nofault', 'migration_nofault')
        cfg = {
            'nsteps': 3 + t.draw(8, 'nsteps') if t.draw(3, 'short') != 2 else 3 + t.draw(38, 'nsteps_long'),
            'pbefail': t.pick([0, 10, 30], 'pbefail') if faulty else 0,
            'preject': t.pick([0, 10, 30], 'preject') if faulty else 0,
            'proute': t.pick([50, 0, 100], 'proute'),      # % of in-tx compiles reusing the live state object
            'pscript': t.pick([0, 10], 'pscript') if faulty else 0,
            'exotic': st == 'exotic',
            # a statement that compiled is refused by the server before it is executed (dbview.parse():
            # check_capabilities() -> DisabledCapabilityError, "disabled by the client": e.g. a client
            # library that does not allow transaction control inside its transaction blocks) - the
            # compiler state has already moved on and has been stored
            # (observe-only stratum 'refusal': neither a compile-time rejection nor an execution failure)
            'prefuse': t.pick([5, 15], 'prefuse') if st == 'refusal' else 0,
        }
        if st == 'deep':
            # long histories that stay inside one transaction: savepoint / DDL / rollback-to heavy,
            # always with compile-time rejections (a defect that needs ~10 specific steps in one
            # block is out of reach of the uniform mix)
            cfg.update(nsteps=10 + t.draw(30, 'nsteps_deep'), pbefail=t.pick([0, 10], 'pbefail_deep'),
                       preject=t.pick([10, 30], 'preject_deep'), pscript=0)
        self.deep = st == 'deep'
        self.mig_enabled = st.startswith('migration')
        if self.mig_enabled:
            cfg.update(pscript=0)      # migration commands inside scripts are not modelled
            if st == 'migration_nofault':
                cfg.update(pbefail=0, preject=0)
        self.sp_order = 0
        self.cfg = cfg

        U0 = isl['FlatSchema']('U0', modules=('default', 'std'))
        self.G0 = isl['FlatSchema']('G0')
        E = isl['EMPTY']
        dv = self.dv = Driver(isl, U0)
        m = self.m = Model(St(('U0', frozenset(['default', 'std'])), isl['DEFAULT_ALIASES'], E))
        self.flags = set()          # history features, for signatures
        self.abandoned = False
        self.nserial = 0
        self.in_block_steps = 0
        self.last_sp_id = 0
        self.hist = []

        for self.step in range(cfg['nsteps']):
            stmts, kinds = self.draw_message()
            self.drive(self.one_message(stmts, kinds))
            if self.violations or self.abandoned:
                break
        return self.result()

    obs_key = 7
    sp_order = 0            # defaults for the pooled sessions, which do not go through run()
    abandoned = False
    deep = False
    mig_enabled = False
    global_ddl = True       # the pooled mode shares one global schema between sessions: off there

    def new_request_key(self):
        return 7        # the direct mode has one request in flight at a time

    @staticmethod
    def drive(gen):
        """one_message / one_script are generators so that the pooled mode can
        suspend them at the compile call; in the direct mode they never yield."""
        for _ in gen:
            raise HarnessError('direct mode must not suspend')

    # -- statement generation ------------------------------------------------------
    def draw_stmt(self):
        t, isl = self.tape, self.isl
        qlast = isl['qlast']
        m = self.m
        #          query start commit rollback declare release rollback_to ddl alias reset config gddl
        if m.in_tx and m.err:
            w = [1, 1, 1, 3, 1, 1, 6, 1, 1, 0, 1, 0]
        elif m.in_tx:
            w = [3, 1, 2, 1, 5, 3, 5, 4, 2, 1, 2, 2]
        else:
            w = [2, 7, 1, 1, 1, 1, 1, 2, 1, 1, 1, 1]
        if getattr(self, 'deep', False):
            if m.in_tx and m.err:
                w = [1, 0, 1, 1, 1, 1, 12, 1, 1, 0, 1, 0]
            elif m.in_tx:
                w = [3, 1, 1, 1, 6, 2, 7, 6, 2, 1, 2, 1]
            else:
                w = [1, 14, 1, 1, 1, 1, 1, 1, 1, 1, 1, 1]
        if not self.global_ddl:
            w[-1] = 0
        kinds_ = ('query', 'start', 'commit', 'rollback', 'declare', 'release', 'rollback_to',
                  'ddl', 'alias', 'reset_alias', 'config', 'gddl')
        if getattr(self, 'mig_enabled', False):
            in_mig = m.current().mig is not None
            in_rw = m.current().rw is not None
            kinds_ += ('mig_start', 'mig_populate', 'mig_commit', 'mig_abort', 'rw_start', 'rw_commit', 'rw_abort')
            if m.in_tx and m.err:
                #    query start commit rollback declare release rollback_to ddl alias reset config gddl
                w = [1, 0, 1, 2, 1, 1, 5, 1, 1, 0, 1, 0] + ([0, 0, 1, 6] if in_mig else [1, 0, 0, 1]) + \
                    ([0, 1, 5] if in_rw else [0, 0, 1])
            elif in_mig:
                w = [2, 1, 1, 1, 4, 2, 4, 8, 1, 1, 1, 1] + [1, 3, 5, 4] + ([0, 1, 2] if in_rw else [1, 0, 0])
            elif in_rw:
                w = [2, 1, 2, 1, 3, 2, 3, 4, 1, 1, 1, 1] + [8, 1, 1, 1] + [1, 5, 3]
            elif m.in_tx:
                w = [2, 1, 2, 1, 4, 2, 3, 3, 1, 1, 1, 1] + [7, 1, 1, 1] + [2, 1, 1]
            else:
                w = [2, 5, 1, 1, 1, 1, 1, 2, 1, 1, 1, 1] + [5, 1, 1, 1] + [2, 1, 1]
        kind = kinds_[t.weighted(w, 'stmt_kind')]
        arg = ''
        if kind == 'query':
            ql = isl['FakeQuery']()
        elif kind == 'start':
            ql = qlast.StartTransaction()
        elif kind == 'commit':
            ql = qlast.CommitTransaction()
        elif kind == 'rollback':
            ql = qlast.RollbackTransaction()
        elif kind in ('declare', 'release', 'rollback_to'):
            arg = NAMES[t.draw(len(NAMES), 'sp_name')]
            cls = {'declare': qlast.DeclareSavepoint, 'release': qlast.ReleaseSavepoint,
                   'rollback_to': qlast.RollbackToSavepoint}[kind]
            ql = cls(name=arg)
        elif kind == 'ddl':
            mod = MODS[t.draw(len(MODS), 'ddl_mod')]
            have = mod in self.m.current()[0][1]
            # mostly valid DDL (add a missing module / drop an existing one)
            op = ('drop' if have else 'add') if t.draw(8, 'ddl_valid') else ('add' if have else 'drop')
            reject = bool(self.cfg['preject']) and t.chance(self.cfg['preject'], 100, 'ddl_reject')
            ql = isl['mkddl'](op, mod, reject)
            arg = f'{op}:{mod}' + (':reject' if reject else '')
        elif kind == 'gddl':
            role = ROLES[t.draw(len(ROLES), 'gddl_role')]
            have = role in self.m.current().gschema[1]
            op = ('drop' if have else 'add') if t.draw(8, 'gddl_valid') else ('add' if have else 'drop')
            ql = isl['mkddl'](op, role, False, True)
            arg = f'{op}:{role}'
        elif kind == 'alias':
            mod = ('default',) + MODS
            mod = mod[t.draw(len(mod), 'alias_mod')]
            al = ('x', 'y', None)[t.draw(3, 'alias_name')]
            ql = qlast.SessionSetAliasDecl(decl=qlast.ModuleAliasDecl(module=mod, alias=al))
            arg = f'{al}={mod}'
        elif kind == 'reset_alias':
            w = t.draw(3, 'reset_kind')
            if w == 0:
                ql = qlast.SessionResetAllAliases()
                arg = '*'
            elif w == 1:
                ql = qlast.SessionResetModule()
                arg = 'module'
            else:
                al = ('x', 'y')[t.draw(2, 'reset_alias_name')]
                ql = qlast.SessionResetAliasDecl(alias=al)
                arg = al
        elif kind == 'mig_start':
            cur_mods = self.m.current()[0][1]
            rw = self.m.current().rw
            if rw is not None and t.draw(3, 'mig_committed'):
                # START MIGRATION TO COMMITTED SCHEMA (only meaningful inside a rewrite block)
                tgt = set(rw.start[1])
                ql = qlast.StartMigration(target=qlast.CommittedSchema())
                ql.__dict__['ttag'] = rw.start[0]
                arg = 'committed'
            else:
                tgt = set(cur_mods)
                for _ in range(1 + t.draw(2, 'mig_ntoggle')):
                    tgt ^= {MODS[t.draw(len(MODS), 'mig_toggle')]}
                ql = qlast.StartMigration(target=isl['mktarget'](tgt))
                ql.__dict__['ttag'] = 'T(' + ','.join(sorted(tgt - {'default', 'std'})) + ')'
                arg = ','.join(sorted(tgt - {'default', 'std'}))
            ql.__dict__['tgt'] = frozenset(tgt)
        elif kind == 'rw_start':
            ql = qlast.StartMigrationRewrite()
        elif kind == 'rw_commit':
            ql = qlast.CommitMigrationRewrite()
            if self.cfg['preject'] and t.chance(self.cfg['preject'], 100, 'rw_commit_reject'):
                ql.__dict__['reject_delta'] = True
                arg = 'reject'
        elif kind == 'rw_abort':
            ql = qlast.AbortMigrationRewrite()
        elif kind == 'mig_populate':
            ql = qlast.PopulateMigration()
        elif kind == 'mig_commit':
            ql = qlast.CommitMigration()
            # the generated CREATE MIGRATION can still be rejected when COMMIT MIGRATION applies it
            if self.cfg['preject'] and t.chance(self.cfg['preject'], 100, 'mig_commit_reject'):
                ql.__dict__['reject_delta'] = True
                arg = 'reject'
        elif kind == 'mig_abort':
            ql = qlast.AbortMigration()
        else:
            name = CFGS[t.draw(len(CFGS), 'cfg_name')]
            self.nserial += 1
            value = None if t.draw(3, 'cfg_reset') == 2 else self.nserial
            ql = self.isl['mkconfig'](name, value)
            arg = f'{name}={value}'
        return ql, kind, arg

    def draw_message(self):
        t = self.tape
        ql, kind, arg = self.draw_stmt()
        stmts, kinds = [ql], [(kind, arg)]
        if self.cfg['pscript'] and t.chance(self.cfg['pscript'], 100, 'script'):
            for _ in range(1 + t.draw(2, 'script_len')):
                ql2, kind2, arg2 = self.draw_stmt()
                if t.draw(2, 'script_order'):
                    stmts.insert(0, ql2)
                    kinds.insert(0, (kind2, arg2))
                else:
                    stmts.append(ql2)
                    kinds.append((kind2, arg2))
        return stmts, kinds

    # -- model: would PostgreSQL accept it? -------------------------------------------
    def model_accepts(self, kind, arg, ql):
        m = self.m
        cur = m.current()
        mig = cur.mig
        if m.in_tx and m.err:
            if kind == 'mig_abort':
                # ABORT MIGRATION is let through in an errored block; its SQL is a plain
                # ROLLBACK when the migration owns the transaction, otherwise a no-op
                # SELECT, which an aborted backend transaction refuses
                return mig is not None and (mig.own_tx or not m.pg_err)
            if kind == 'rw_abort':
                return cur.rw is not None and (cur.rw.own_tx or not m.pg_err)
            return kind == 'rollback' or (kind == 'rollback_to' and any(s[0] == arg for s in m.sps))
        if kind == 'start':
            return not m.in_tx
        if kind == 'commit':
            # "cannot execute COMMIT in a migration [rewrite] block": what such a block has built exists
            # only in the compiler; a COMMIT would publish it as the schema of the database
            return m.in_tx and mig is None and cur.rw is None
        if kind == 'mig_start':
            return mig is None and (cur.rw is not None or not isinstance(ql.target, self.isl['qlast'].CommittedSchema))
        if kind == 'rw_start':
            return mig is None and cur.rw is None
        if kind == 'rw_commit':
            return (cur.rw is not None and mig is None and cur[0][1] == cur.rw.start[1]
                    and not (ql.__dict__.get('reject_delta') and cur.rw.nmig))
        if kind == 'rw_abort':
            return cur.rw is not None
        if kind == 'gddl' and cur.rw is not None:
            return False                            # only CREATE MIGRATION is recorded in a rewrite block
        if kind == 'mig_populate':
            return mig is not None
        if kind == 'mig_commit':
            # (inside a rewrite block the migration is only recorded: nothing is applied, nothing can be rejected)
            return mig is not None and cur[0][1] == mig.target and not (
                ql.__dict__.get('reject_delta') and cur.rw is None)
        if kind == 'mig_abort':
            return mig is not None
        if kind == 'gddl' and mig is not None:
            return False                            # global objects cannot be changed in a migration block
        if kind == 'rollback':
            return True
        if kind == 'declare':
            return m.in_tx
        if kind in ('release', 'rollback_to'):
            return m.in_tx and any(s[0] == arg for s in m.sps)
        if kind == 'ddl':
            if ql.reject:
                return False
            have = ql.tag in cur[0][1]
            return (not have) if ql.op == 'add' else have
        if kind == 'gddl':
            have = ql.tag in cur.gschema[1]
            return (not have) if ql.op == 'add' else have
        if kind == 'alias':
            return ql.decl.module in cur[0][1]
        if kind == 'reset_alias':
            if isinstance(ql, self.isl['qlast'].SessionResetAliasDecl):
                return ql.alias in cur[1]     # Map.delete of a missing key is an error
            return True
        return True

    def backend_rejects(self, kind, arg, ql):
        """Would PostgreSQL itself fail the SQL of this unit?  (COMMIT outside
        a block and START inside one only produce warnings there; aliases and
        session settings are not a backend matter at all.)"""
        m = self.m
        cur = m.current()
        if m.in_tx and m.err:
            if kind == 'mig_abort' and cur.mig is not None:
                return m.pg_err and not cur.mig.own_tx
            if kind == 'rw_abort' and cur.rw is not None:
                return m.pg_err and not cur.rw.own_tx
            return not (kind == 'rollback' or (kind == 'rollback_to' and any(s[0] == arg for s in m.sps)))
        if kind == 'declare':
            return not m.in_tx
        if kind in ('release', 'rollback_to'):
            return not (m.in_tx and any(s[0] == arg for s in m.sps))
        if kind == 'ddl':
            if cur.mig is not None or cur.rw is not None:
                return False            # recorded by the compiler, SQL is a no-op
            have = ql.tag in cur[0][1]
            return have if ql.op == 'add' else not have
        if kind == 'gddl':
            have = ql.tag in cur.gschema[1]
            return have if ql.op == 'add' else not have
        return False

    def model_apply(self, kind, arg, ql):
        m = self.m
        cur = m.current()
        if kind == 'start':
            m.in_tx = True
            m.err = m.pg_err = False
            m.cur = m.state0 = m.base
            m.sps = []
        elif kind == 'mig_start':
            own = not m.in_tx
            if own:
                m.in_tx = True
                m.err = m.pg_err = False
                m.cur = m.state0 = m.base
                m.sps = []
            m.cur = m.cur._replace(mig=Mig(ql.__dict__['tgt'], m.cur.schema, own, self.sp_order, ql.__dict__['ttag']))
            self.probes['migration_started_' + ('own_tx' if own else 'in_rewrite' if m.cur.rw else 'in_block')] += 1
        elif kind == 'rw_start':
            own = not m.in_tx
            if own:
                m.in_tx = True
                m.err = m.pg_err = False
                m.cur = m.state0 = m.base
                m.sps = []
            m.cur = m.cur._replace(schema=('R0', frozenset(['default', 'std'])), rw=Rw(m.cur.schema, own, self.sp_order))
            self.probes['rewrite_started_' + ('own_tx' if own else 'in_block')] += 1
        elif kind == 'rw_commit':
            self.note_migration_end(cur.rw)
            # the schema the block started from, with the rewritten migration log ('@' per recorded migration)
            m.cur = cur._replace(schema=(cur.rw.start[0] + '@' * cur.rw.nmig, cur.rw.start[1]), rw=None)
            self.probes['rewrite_committed'] += 1
            if cur.rw.own_tx:
                m.base = m.cur
                m.in_tx = False
                m.sps = []
        elif kind == 'rw_abort':
            self.note_migration_end(cur.rw)
            self.probes['rewrite_aborted' + ('_in_error_state' if m.err else '')] += 1
            if cur.rw.own_tx:
                m.in_tx = False
                m.err = m.pg_err = False
                m.sps = []
            else:
                m.cur = cur._replace(schema=cur.rw.start, rw=None, mig=None)
                m.err = False
        elif kind == 'mig_populate':
            tag, mods = cur[0]
            tgt = cur.mig.target
            for mod in sorted(mods - tgt):
                tag, mods = tag + '-' + mod, mods - {mod}
            for mod in sorted(tgt - mods):
                tag, mods = tag + '+' + mod, mods | {mod}
            m.cur = cur._replace(schema=(tag, mods))
        elif kind == 'mig_commit':
            self.note_migration_end(cur.mig)
            m.cur = cur._replace(mig=None)
            if cur.rw is not None:
                # inside a rewrite the block is only recorded, and the compiler adopts the target schema object
                m.cur = m.cur._replace(schema=(cur.mig.ttag, cur.mig.target), rw=cur.rw._replace(nmig=cur.rw.nmig + 1))
            self.probes['migration_committed' + ('_in_rewrite' if cur.rw is not None else '')] += 1
            if cur.mig.own_tx:
                m.base = m.cur
                m.in_tx = False
                m.sps = []
        elif kind == 'mig_abort':
            self.note_migration_end(cur.mig)
            self.probes['migration_aborted' + ('_in_error_state' if m.err else '')] += 1
            if cur.mig.own_tx:
                m.in_tx = False
                m.err = m.pg_err = False
                m.sps = []
            else:
                # nothing of the block ever reached the backend: the schema is what it was at START
                # MIGRATION; aliases and settings changed meanwhile stay (their SQL was executed)
                m.cur = cur._replace(schema=cur.mig.start, mig=None)
                m.err = False
        elif kind == 'commit':
            m.base = m.cur
            m.in_tx = False
            m.sps = []
        elif kind == 'rollback':
            m.in_tx = False
            m.err = m.pg_err = False
            m.sps = []
        elif kind == 'declare':
            if any(s[0] == arg for s in m.sps):
                self.flags.add('shadowing-savepoint')
                self.probes['savepoint_shadowing'] += 1
            self.sp_order += 1
            m.sps.append((arg, m.cur, self.last_sp_id, self.sp_order))
        elif kind == 'release':
            n_same = sum(1 for s in m.sps if s[0] == arg)
            while m.sps:
                ent = m.sps.pop()
                if any(b is not None and not b.own_tx and ent[3] <= b.order for b in (cur.mig, cur.rw)):
                    # a savepoint older than the open migration block is released: the compiler's
                    # own (invisible) migration savepoint goes with it
                    self.flags.add('migration-savepoint-released')
                    self.probes['release_reaches_below_migration_start'] += 1
                if ent[0] == arg:
                    break
            if n_same > 1:
                self.flags.add('released-shadowing-savepoint')
                self.probes['release_of_shadowing_savepoint'] += 1
        elif kind == 'rollback_to':
            while m.sps[-1][0] != arg:
                m.sps.pop()
            m.cur = m.sps[-1][1]
            m.err = m.pg_err = False
            # which savepoint did the *server* resolve the name to?  (the
            # driver has already popped its list down to it)
            if self.dv.in_tx_savepoints and self.dv.in_tx_savepoints[-1][1] != m.sps[-1][2]:
                self.flags.add('resolved-released-savepoint')
                self.probes['rollback_to_resolved_to_released_savepoint'] += 1
        elif kind == 'ddl':
            tag, mods = cur[0]
            mods = (mods | {ql.tag}) if ql.op == 'add' else (mods - {ql.tag})
            new = cur._replace(schema=(tag + ('+' if ql.op == 'add' else '-') + ql.tag, mods))
            if cur.rw is not None and cur.mig is None:
                new = new._replace(rw=cur.rw._replace(nmig=cur.rw.nmig + 1))    # recorded as a migration of its own
            m.set(new)
        elif kind == 'gddl':
            gtag, roles = cur.gschema
            roles = (roles | {ql.tag}) if ql.op == 'add' else (roles - {ql.tag})
            m.set(cur._replace(gschema=(gtag + ('+' if ql.op == 'add' else '-') + ql.tag, roles)))
        elif kind == 'alias':
            m.set(cur._replace(aliases=cur[1].set(ql.decl.alias, ql.decl.module)))
        elif kind == 'reset_alias':
            qlast = self.isl['qlast']
            if isinstance(ql, qlast.SessionResetAllAliases):
                al = self.isl['DEFAULT_ALIASES']
            elif isinstance(ql, qlast.SessionResetModule):
                al = cur[1].set(None, 'default')
            else:
                al = cur[1].delete(ql.alias)
            m.set(cur._replace(aliases=al))
        elif kind == 'config':
            conf = cur[2]
            if ql.cfg_value is None:
                conf = conf.delete(ql.cfg_name) if ql.cfg_name in conf else conf
            else:
                conf = conf.set(ql.cfg_name, ql.cfg_value)
            m.set(cur._replace(config=conf))

    # -- one client message ------------------------------------------------------------
    def compile_message(self, stmts):
        return self.compile_direct(stmts)
        yield   # (generator: the pooled mode suspends here instead)

    def compile_direct(self, stmts):
        """dbview._compile(): chooses compile / compile_in_tx and ships the
        state blob (dbview.pyx:1630-1672, worker.py compile_in_tx)."""
        isl, dv, t = self.isl, self.dv, self.tape
        C = isl['C']
        E = isl['EMPTY']
        req = isl['Req'](stmts, modaliases=dv.get_modaliases(), session_config=dv.get_config(), key=self.obs_key)
        if dv.in_tx:
            # compiler_pool/pool.py compile_in_tx(): the marker is sent iff the
            # worker's recorded last state *is* the blob the server holds; the
            # record is cleared before every call and set again on success, so
            # a state object a failed compile has half-mutated is never reused
            # (worker.py compile_in_tx: LAST_STATE vs pickle.loads + set_root)
            if (dv.live is not None and dv.live_for is dv.last_comp_state
                    and t.chance(self.cfg['proute'], 100, 'route_reuse')):
                st = dv.live
                self.probes['route_reuse_live_state'] += 1
            else:
                st = pickle.loads(dv.last_comp_state)
                st.set_root_user_schema(dv.in_tx_root_user_schema)
                self.probes['route_unpickle_state'] += 1
            dv.live = st
            dv.live_for = None
            ug, st2 = C.compile_in_tx(state=st, txid=dv.txid, request=req, expect_rollback=dv.tx_error)
            blob = pickle.dumps(st2, -1)
            dv.live = st2
            dv.live_for = blob
            dv.last_comp_state = blob
            return ug
        dv.live_for = None
        ug, st = C.compile(user_schema=dv.db_user_schema, global_schema=dv.get_global_schema(), reflection_cache=E,
                           database_config=E, system_config=E, request=req)
        if st is not None:
            blob = pickle.dumps(st, -1)
            dv.live, dv.live_for, dv.last_comp_state = st, blob, blob
        else:
            dv.live = dv.live_for = dv.last_comp_state = None
        return ug

    TCL = ('start', 'commit', 'rollback', 'declare', 'release', 'rollback_to')
    MIGK = ('mig_start', 'mig_populate', 'mig_commit', 'mig_abort', 'rw_start', 'rw_commit', 'rw_abort')

    def one_message(self, stmts, kinds):
        if len(stmts) > 1 and not any(k in self.TCL for k, _ in kinds):
            return (yield from self.one_script(stmts, kinds))
        isl, dv, m, t = self.isl, self.dv, self.m, self.tape
        errors = isl['errors']
        is_script = len(stmts) > 1
        kind, arg = kinds[0]
        ql = stmts[0]
        where = 'aborted' if (m.in_tx and m.err) else 'block' if m.in_tx else 'outside'
        if m.current().mig is not None:
            where += '-in-migration'
        elif m.current().rw is not None:
            where += '-in-rewrite'
        if m.in_tx:
            self.in_block_steps += 1

        # backend failure decided up-front (so that the tape does not depend on outcomes)
        eligible = kind in ('ddl', 'gddl', 'query', 'alias', 'reset_alias', 'config', 'commit', 'mig_commit') or (
            self.cfg['exotic'] and kind in ('start', 'declare', 'release', 'rollback', 'rollback_to'))
        if kind == 'ddl' and (m.current().mig is not None or m.current().rw is not None):
            eligible = False        # DDL inside a migration (rewrite) block sends a no-op to the backend
        if kind == 'rw_commit':
            eligible = True
        if kind == 'mig_commit' and m.current().rw is not None:
            eligible = False        # only recorded
        befail = bool(self.cfg['pbefail']) and t.chance(self.cfg['pbefail'], 100, 'backend_fail') and eligible
        refused = bool(self.cfg.get('prefuse')) and t.chance(self.cfg['prefuse'], 100, 'refused') and kind != 'query'

        macc = (not is_script) and self.model_accepts(kind, arg, ql)
        # a script containing transaction control is always rejected
        self.obs_key = self.new_request_key()
        isl['observed'].pop(self.obs_key, None)
        cur_before = m.current()

        # ---- compile (dbview.parse) ----
        isl['process_delta_fail'][0] = bool(ql.__dict__.get('reject_delta'))
        try:
            ug = yield from self.compile_message(stmts)
            # dbview.pyx:1590-1602  _check_in_tx_error()
            if dv.tx_error:
                first = ug[0]
                if not (first.tx_rollback or first.tx_savepoint_rollback or first.tx_abort_migration) or len(ug) > 1:
                    raise errors.TransactionError('current transaction is aborted')
            compiled = True
        except HarnessError:
            raise
        except InfraFailure:
            self.note_infra_failure(kinds, where)
            return
        except Exception as e:
            if 'failed to lookup' in str(e):
                # sync_tx / sync_to_savepoint could not find the position the
                # server legitimately reported
                self.ev('msg', kind, arg, 'lookup-failed')
                self.violate('T5', self.sig(f'sync-lookup-failed:{where}'),
                             f'{self.describe(kinds)}: compiler raised {e!r} for txid={dv.txid}; '
                             f'history: {self.hist}')
                return
            compiled = False
            rej = type(e).__name__
            rej_text = str(e)
            if not isinstance(e, errors.EdgeDBError):
                self.probes[f'non_edgedb_rejection:{rej}'] += 1
            # binary.pyx:1128  dbview.tx_error() on any error of the message
            if dv.in_tx:
                dv.tx_error = True

        isl['process_delta_fail'][0] = False
        if compiled and refused:
            # dbview.pyx parse(): _compile() has stored the new state, then check_capabilities() raises;
            # binary.pyx:1128: any error of the message puts an open transaction into the error state
            if dv.in_tx:
                dv.tx_error = True
            if m.in_tx:
                m.err = True
            self.hist.append(self.describe(kinds) + '!refused')
            self.ev('msg', kind, arg, 'refused', where)
            self.probes[f'cell:{kind}:{where}:refused'] += 1
            self.faults['capability_refusal'] += 1
            return
        if not compiled:
            self.hist.append(self.describe(kinds) + '!rejected')
            self.ev('msg', kind, arg, 'rejected', where)
            self.probes[f'cell:{kind}:{where}:rejected'] += 1
            self.faults['compile_rejection'] += 1
            if macc and kind in self.MIGK:
                # the statement of C09 says nothing about the outcome of migration commands
                # themselves: recorded, and the run goes on with the real outcome
                self.probes[self.sig(f'observed:migration-command-rejected:{kind}:{where}')] += 1
                macc = False
            if macc:
                self.violate('T2', self.sig(f'rejected-valid:{where}:{kind}'),
                             f'{self.describe(kinds)} was rejected at compile time ({rej}: {rej_text}) although the '
                             f'backend would accept it; history: {self.hist}')
                return
            if m.in_tx:
                m.err = True
            return

        if is_script and dv.tx_error and len(ug) == 1 and (ug[0].tx_rollback or ug[0].tx_savepoint_rollback):
            # Compiler._try_compile_rollback(): in an aborted transaction whose
            # position the compiler cannot find, only the first statement of
            # the message is looked at and the rest is dropped.  The server
            # then executes that single rollback unit: follow it.
            self.probes['script_truncated_by_rollback_shortcut'] += 1
            is_script = False
            kinds = kinds[:1]
            macc = self.model_accepts(kind, arg, ql)
        if is_script:
            self.violate('T2', 'script-with-transaction-control-accepted',
                         f'{self.describe(kinds)} (one script) compiled although explicit transaction control '
                         f'is not allowed in scripts; history: {self.hist}')
            return
        unit = ug[0]
        if kind in ('mig_commit', 'mig_abort') and m.current().mig is not None:
            # the compiler ends the block when it compiles the command, whatever happens to the unit afterwards
            self.note_migration_end(m.current().mig)
        if kind in ('rw_commit', 'rw_abort') and m.current().rw is not None:
            self.note_migration_end(m.current().rw)
        # ---- T1: what did the compiler see? ----
        if kind == 'query' and not is_script:
            if not isl['observed'].get(self.obs_key):
                raise HarnessError('query compiled without observation')
            tag, al, cf, gtag = isl['observed'][self.obs_key][-1]
            exp = cur_before
            if (tag, al, cf, gtag) != (exp[0][0], exp[1], exp[2], exp.gschema[0]):
                what = ('schema' if tag != exp[0][0] else 'aliases' if al != exp[1] else
                        'config' if cf != exp[2] else 'global-schema')
                if what == 'global-schema':
                    tag, exp = f'{tag}|{gtag}', exp._replace(schema=(f'{exp[0][0]}|{exp.gschema[0]}', exp[0][1]))
                self.violate('T1', self.sig(f'visible-{what}:{where}'),
                             f'{self.describe(kinds)} was compiled against schema={tag} aliases={dict(al)} '
                             f'config={dict(cf)}; a PostgreSQL-style transaction exposes schema={exp[0][0]} '
                             f'aliases={dict(exp[1])} config={dict(exp[2])}; history: {self.hist}')
                return
        self.check_unit_fields(unit, kind, arg, where, kinds)
        if not self.violations and macc and unit.modaliases is not None:
            # the aliases the unit reports to the server are the ones that
            # apply after the statement (dbview.on_success adopts them)
            exp_al = self.aliases_after(kind, arg, ql)
            if exp_al is not None and unit.modaliases != exp_al:
                self.violate('T3', self.sig(f'unit-modaliases:{kind}'),
                             f'{self.describe(kinds)}: the unit reports aliases {dict(unit.modaliases)}, '
                             f'PostgreSQL-style semantics give {dict(exp_al)} after it; history: {self.hist}')
        if self.violations:
            return

        # ---- execute ----
        status = self.execute(unit, kind, arg, ql, befail, macc)
        self.hist.append(self.describe(kinds) + ('' if status == 'ok' else '!' + status))
        self.ev('msg', kind, arg, status, where)
        self.probes[f'cell:{kind}:{where}:{status}'] += 1
        if status == 'ok':
            if not macc and kind in self.MIGK:
                # (see above) the model cannot follow an outcome it does not predict: stop here
                self.probes[self.sig(f'observed:migration-command-accepted:{kind}:{where}')] += 1
                self.abandoned = True
                return
            if not macc:
                self.violate('T2', self.sig(f'accepted-invalid:{where}:{kind}'),
                             f'{self.describe(kinds)} succeeded although PostgreSQL semantics reject it '
                             f'here; history: {self.hist}')
                return
            self.model_apply(kind, arg, ql)
            self.check_baseline(kind, kinds)
        else:
            if status == 'failed':
                self.faults['backend_failure'] += 1

    def clone_model(self):
        m = self.m
        m2 = Model(m.base)
        m2.in_tx, m2.err, m2.cur, m2.state0, m2.sps = m.in_tx, m.err, m.cur, m.state0, list(m.sps)
        m2.pg_err = m.pg_err
        return m2

    def one_script(self, stmts, kinds):
        """A multi-statement message without transaction control: compiled as
        one unit group; executed by execute.pyx execute_script(): inside an
        explicit transaction statement by statement, outside one in an
        implicit transaction that commits at the end or not at all."""
        isl, dv, t = self.isl, self.dv, self.tape
        errors = isl['errors']
        m = self.m
        where = 'aborted' if (m.in_tx and m.err) else 'block' if m.in_tx else 'outside'
        if m.in_tx:
            self.in_block_steps += 1
        befail = bool(self.cfg['pbefail']) and t.chance(self.cfg['pbefail'], 100, 'backend_fail')
        fail_at = t.draw(len(stmts), 'script_fail_at') if befail else None
        label = self.describe(kinds)

        # what PostgreSQL-style semantics say, statement by statement
        m2 = self.clone_model()
        accept = not (m.in_tx and m.err)
        before = []
        prefix_models = []
        self.m = m2
        try:
            for (kind, arg), ql in zip(kinds, stmts):
                before.append(m2.current())
                prefix_models.append(None)
                if accept and self.model_accepts(kind, arg, ql):
                    self.model_apply(kind, arg, ql)
                else:
                    accept = False
        finally:
            self.m = m

        self.obs_key = self.new_request_key()
        isl['observed'].pop(self.obs_key, None)
        try:
            ug = yield from self.compile_message(stmts)
            if dv.tx_error:
                raise errors.TransactionError('current transaction is aborted')   # len(ug) > 1
            compiled = True
        except HarnessError:
            raise
        except InfraFailure:
            self.note_infra_failure(kinds, where)
            return
        except Exception as e:
            if 'failed to lookup' in str(e):
                self.violate('T5', self.sig(f'sync-lookup-failed:{where}'),
                             f'{label}: compiler raised {e!r} for txid={dv.txid}; history: {self.hist}')
                return
            compiled = False
            rej = type(e).__name__
            if dv.in_tx:
                dv.tx_error = True
        if not compiled:
            self.hist.append(f'[{label}]!rejected')
            self.ev('script', label, 'rejected', where)
            self.probes[f'cell:script:{where}:rejected'] += 1
            self.faults['compile_rejection'] += 1
            if accept:
                self.violate('T2', self.sig(f'rejected-valid:{where}:script'),
                             f'script [{label}] was rejected at compile time ({rej}) although every statement '
                             f'is valid where it stands; history: {self.hist}')
                return
            if m.in_tx:
                m.err = True
            return
        if not accept:
            self.violate('T2', self.sig(f'accepted-invalid:{where}:script'),
                         f'script [{label}] compiled although PostgreSQL-style semantics reject one of its '
                         f'statements; history: {self.hist}')
            return
        if len(ug) != len(stmts):
            self.violate('T3', 'script-unit-count', f'script [{label}] compiled into {len(ug)} units')
            return
        # T1: every query of the script sees the effect of the statements before it
        obs = list(isl['observed'].get(self.obs_key, ()))
        qi = 0
        for i, (kind, arg) in enumerate(kinds):
            if kind != 'query':
                continue
            if qi >= len(obs):
                raise HarnessError('script query compiled without observation')
            tag, al, cf, gtag = obs[qi]
            qi += 1
            exp = before[i]
            if (tag, al, cf, gtag) != (exp[0][0], exp[1], exp[2], exp.gschema[0]):
                what = ('schema' if tag != exp[0][0] else 'aliases' if al != exp[1] else
                        'config' if cf != exp[2] else 'global-schema')
                if what == 'global-schema':
                    tag, exp = f'{tag}|{gtag}', exp._replace(schema=(f'{exp[0][0]}|{exp.gschema[0]}', exp[0][1]))
                self.violate('T1', self.sig(f'visible-{what}:{where}:script'),
                             f'statement {i + 1} of script [{label}] was compiled against schema={tag} '
                             f'aliases={dict(al)} config={dict(cf)}; expected schema={exp[0][0]} '
                             f'aliases={dict(exp[1])} config={dict(exp[2])}; history: {self.hist}')
                return
        for unit in ug:
            if unit.tx_id is not None or unit.tx_commit or unit.tx_rollback or unit.tx_savepoint_declare \
                    or unit.tx_savepoint_rollback:
                self.violate('T3', 'script-unit-carries-transaction-control',
                             f'script [{label}]: a unit carries transaction-control flags')
                return

        # ---- execute_script (execute.pyx:441-660) ----
        was_in_tx = dv.in_tx
        user_schema = None
        global_schema = None
        failed = False
        try:
            for i, unit in enumerate(ug):
                dv.start_implicit(unit)
                if unit.user_schema:
                    user_schema = unit.user_schema
                if unit.global_schema:
                    global_schema = unit.global_schema
                if fail_at == i:
                    raise _BackendFailure()
                for op in unit.config_ops:
                    dv.set_config(op.apply(dv.get_config()))
                dv.on_success(unit)
        except _BackendFailure:
            failed = True
            if dv.in_tx:
                dv.tx_error = True                 # on_error()
            if not was_in_tx and dv.in_tx:
                dv.reset_tx_state()                # abort_tx(): the implicit transaction is gone
        if failed:
            self.faults['backend_failure'] += 1
            self.hist.append(f'[{label}]!failed@{fail_at + 1}')
            self.ev('script', label, 'failed', where)
            self.probes[f'cell:script:{where}:failed'] += 1
            if m.in_tx:
                # the statements before the failing one took effect in the
                # (now aborted) transaction
                for (kind, arg), ql in list(zip(kinds, stmts))[:fail_at]:
                    self.model_apply(kind, arg, ql)
                m.err = m.pg_err = True
            return
        if not was_in_tx:
            dv.commit_implicit_tx(user_schema, global_schema)
        self.hist.append(f'[{label}]')
        self.ev('script', label, 'ok', where)
        self.probes[f'cell:script:{where}:ok'] += 1
        m.base, m.cur = m2.base, m2.cur
        self.check_baseline('script', kinds)

    def note_infra_failure(self, kinds, where):
        # binary.pyx:1128: any error of the message puts an open transaction
        # into the error state; the backend never saw the statement
        dv, m = self.dv, self.m
        if dv.in_tx:
            dv.tx_error = True
        if m.in_tx:
            m.err = True
        self.hist.append(self.describe(kinds) + '!lost')
        self.ev('msg', self.describe(kinds), 'lost', where)
        self.probes[f'cell:any:{where}:lost'] += 1

    def describe(self, kinds):
        return ' ; '.join(f'{k} {a}'.strip() for k, a in kinds)

    def sig(self, base):
        if 'resolved-released-savepoint' in self.flags:
            base += ':after-server-resolved-a-released-savepoint'
        if 'migration-savepoint-released' in self.flags:
            base += ':after-release-below-migration-start'
        if 'migration-end-with-user-savepoints' in self.flags:
            base += ':after-migration-ended-over-user-savepoints'
        return base

    def note_migration_end(self, mig):
        """COMMIT / ABORT MIGRATION inside a transaction block while savepoints declared
        inside the migration block still exist in the backend."""
        if not mig.own_tx and any(ent[3] > mig.order for ent in self.m.sps):
            self.flags.add('migration-end-with-user-savepoints')
            self.probes['migration_ended_over_user_savepoints'] += 1

    def aliases_after(self, kind, arg, ql):
        m = self.m
        cur = m.current()
        qlast = self.isl['qlast']
        if kind == 'commit':
            return cur[1]
        if kind == 'rollback':
            return m.base[1]
        if kind == 'rollback_to':
            for nm, triple, *_ in reversed(m.sps):
                if nm == arg:
                    return triple[1]
            return None
        if kind == 'alias':
            return cur[1].set(ql.decl.alias, ql.decl.module)
        if kind == 'reset_alias':
            if isinstance(ql, qlast.SessionResetAllAliases):
                return self.isl['DEFAULT_ALIASES']
            if isinstance(ql, qlast.SessionResetModule):
                return cur[1].set(None, 'default')
            return cur[1].delete(ql.alias) if ql.alias in cur[1] else None
        if kind == 'config':
            return cur[1]
        return None

    # -- T3 ------------------------------------------------------------------------------
    def check_unit_fields(self, unit, kind, arg, where, kinds):
        cur = self.m.current()
        mig, rw = cur.mig, cur.rw
        if kind in ('mig_populate', 'mig_commit', 'mig_abort') and mig is None:
            return      # accepted although no migration block is open: handled by the caller
        if kind in ('rw_commit', 'rw_abort') and rw is None:
            return
        own = (kind.startswith('mig_') and mig is not None and mig.own_tx) or \
              (kind.startswith('rw_') and rw is not None and rw.own_tx)
        exp = {
            'tx_commit': kind == 'commit' or (kind in ('mig_commit', 'rw_commit') and own),
            'tx_rollback': kind == 'rollback' or (kind in ('mig_abort', 'rw_abort') and own),
            'tx_savepoint_declare': kind == 'declare', 'tx_savepoint_rollback': kind == 'rollback_to',
            'tx_abort_migration': kind in ('mig_abort', 'rw_abort') and not own,
        }
        for f, want in exp.items():
            if bool(getattr(unit, f)) != want:
                self.violate('T3', f'unit-field:{f}:{kind}', f'{self.describe(kinds)}: unit.{f}={getattr(unit, f)!r}')
                return
        if (unit.tx_id is not None) != (kind == 'start' or (kind in ('mig_start', 'rw_start') and not self.m.in_tx)):
            self.violate('T3', f'unit-field:tx_id:{kind}', f'{self.describe(kinds)}: unit.tx_id={unit.tx_id!r}')
            return
        if kind in ('declare', 'rollback_to') and unit.sp_name != arg:
            self.violate('T3', f'unit-field:sp_name:{kind}', f'{self.describe(kinds)}: unit.sp_name={unit.sp_name!r}')
            return
        if kind == 'declare':
            if unit.sp_id is None or unit.sp_id <= self.last_sp_id:
                self.violate('T3', 'unit-field:sp_id-not-increasing',
                             f'{self.describe(kinds)}: sp_id={unit.sp_id!r} after {self.last_sp_id}')
                return
            self.last_sp_id = unit.sp_id

    # -- execution: execute.pyx / binary.pyx --------------------------------------------------
    def execute(self, unit, kind, arg, ql, befail, macc):
        dv, m = self.dv, self.m
        # the backend itself fails what PostgreSQL would fail
        backend_rejects = self.backend_rejects(kind, arg, ql)
        if dv.tx_error or unit.tx_savepoint_rollback or unit.tx_abort_migration:
            # binary.pyx:719-748  _execute_rollback()
            if not (unit.tx_savepoint_rollback or unit.tx_rollback or unit.tx_abort_migration):
                raise HarnessError('non-rollback unit reached _execute_rollback')
            if backend_rejects or befail:
                # binary.pyx:1128: dbview.tx_error()
                if dv.in_tx:
                    dv.tx_error = True
                if m.in_tx:
                    m.err = m.pg_err = True        # any SQL error aborts the backend transaction
                return 'failed'
            if unit.tx_abort_migration:
                dv.tx_error = False            # dbview.clear_tx_error()
            elif unit.tx_savepoint_rollback:
                try:
                    dv.rollback_tx_to_savepoint(unit.sp_name)
                except RuntimeError as e:
                    self.violate('T5', self.sig('driver-savepoint-not-found'),
                                 f'rollback_tx_to_savepoint({unit.sp_name!r}): {e}; history: {self.hist}')
                    return 'failed'
            else:
                if dv.in_tx:
                    dv.reset_tx_state()        # abort_tx()
            return 'ok'
        # execute.pyx:266 dbv.start(query_unit)
        dv.start(unit)
        if backend_rejects or befail:
            # execute.pyx:403-409
            if dv.in_tx:
                dv.tx_error = True
            if unit.tx_commit and dv.in_tx and kind not in ('mig_commit', 'rw_commit'):
                # COMMIT failed: the backend is no longer in a transaction
                # (execute.pyx:403-409; for "<migration DDL>; COMMIT" the DDL fails first and
                # the backend stays in its aborted transaction)
                dv.reset_tx_state()
                m.in_tx = False
                m.err = m.pg_err = False
                m.sps = []
            elif kind == 'start' and not m.in_tx:
                # exotic: START failed in the backend (the server is already
                # in its transaction, in error state; only ROLLBACK gets out)
                m.in_tx = True
                m.err = m.pg_err = True
                m.cur = m.state0 = m.base
                m.sps = []
            elif m.in_tx:
                m.err = m.pg_err = True
            return 'failed'
        # execute.pyx:346-351
        if unit.tx_savepoint_declare:
            dv.declare_savepoint(unit.sp_name, unit.sp_id)
        # dbview.apply_config_ops
        for op in unit.config_ops:
            dv.set_config(op.apply(dv.get_config()))
        try:
            dv.on_success(unit)
        except self.isl['errors'].InternalServerError as e:
            # the backend has executed the unit, then the server trips over
            # its own sanity check: the statement was not rejected up-front
            self.violate('T2', f'accepted-invalid:{"block" if m.in_tx else "outside"}:{kind}:server-internal-error',
                         f'{kind} {arg} was compiled and executed, then the server raised {e!r}; '
                         f'history: {self.hist}')
            return 'failed'
        return 'ok'

    # -- T4 -------------------------------------------------------------------------------------
    def check_baseline(self, kind, kinds):
        dv, m = self.dv, self.m
        if not m.in_tx:
            got = (dv.db_user_schema.tag + '|' + dv.global_schema.tag, dv.modaliases, dv.config)
            exp = (m.base[0][0] + '|' + m.base.gschema[0], m.base[1], m.base[2])
            if got != exp:
                what = 'schema' if got[0] != exp[0] else 'aliases' if got[1] != exp[1] else 'config'
                self.violate('T4', self.sig(f'baseline-{what}:after-{kind}'),
                             f'after {self.describe(kinds)} the session baseline is schema={got[0]} '
                             f'aliases={dict(got[1])} config={dict(got[2])}; PostgreSQL-style semantics give '
                             f'schema={exp[0]} aliases={dict(exp[1])} config={dict(exp[2])}; history: {self.hist}')
        if dv.in_tx != m.in_tx:
            self.violate('T4', f'in-transaction-flag:after-{kind}',
                         f'after {self.describe(kinds)} server in_tx={dv.in_tx}, model in_tx={m.in_tx}; '
                         f'history: {self.hist}')

    def result(self):
        return {
            'violations': self.violations,
            'digest': int.from_bytes(self.h.digest(), 'big'),
            'nontrivial': self.in_block_steps > 0,
            'steps': self.step + 1,
            'sim_time': 0.0,
            'faults': dict(self.faults),
            'probes': dict(self.probes),
            'served': self.step + 1,
            'config': dict(self.cfg),
            'internal_errors': [],
            'trace': self.trace,
            'bound': 0.0,
            'history': list(self.hist),
        }


def run(tape, **opts):
    return World(tape, **opts).run()
