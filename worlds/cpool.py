"""C17 world: the real compiler pool (server side) and the real worker modules
(one module instance per simulated process) over an in-memory transport, with
an echo compiler as the observation point.

Oracles (DESIGN.md 5.2):
  E1  what the worker-side compiler entry point received == what the caller
      passed to AbstractPool.compile*;
  E2  a request may only fail with an error the simulator can attribute to an
      injected fault of that request;
  E3  after every completed call, for every idle live worker, what the server
      believes the worker holds == what the worker's module globals hold.
"""
from __future__ import annotations

import asyncio
import collections
import hashlib
import pickle as real_pickle
import struct

import immutables

from sim.loop import SimLoop, HarnessError
from worlds import cpool_island as ci

PK = struct.Struct('!Q').pack
UNPK = struct.Struct('!Q').unpack
MS = 0.001

STRATA = ('nofault', 'core', 'cancel', 'poolfault')
POOL_KINDS = ('fixed', 'adaptive', 'multitenant')


class Tok:
    """Versioned state token; value equality, pickles to itself."""
    __slots__ = ('c',)

    def __init__(self, *c):
        self.c = c

    def __eq__(self, o):
        return isinstance(o, Tok) and o.c == self.c

    def __hash__(self):
        return hash(self.c)

    def __repr__(self):
        return 'T' + repr(self.c)

    def __reduce__(self):
        return (Tok, self.c)


class KeyedVal:
    """A configuration value whose ``==`` looks at its key only - like
    edb.server.config.types.CompositeConfigType, which compares the exclusive fields and nothing
    else: two values can be equal and still be different settings.  While the simulator's own
    oracles compare (``strict``), the content counts as well."""
    __slots__ = ('key', 'content')
    strict = False

    def __init__(self, key, content):
        self.key, self.content = key, content

    def __eq__(self, o):
        return (isinstance(o, KeyedVal) and o.key == self.key
                and (not KeyedVal.strict or o.content == self.content))

    def __hash__(self):
        return hash(self.key)

    def __repr__(self):
        return f'K({self.key!r}:{self.content!r})'

    def __reduce__(self):
        return (KeyedVal, (self.key, self.content))


class _Strict:
    """with STRICT: ... - the oracle compares configuration values by content."""

    def __enter__(self):
        self.prev, KeyedVal.strict = KeyedVal.strict, True

    def __exit__(self, *a):
        KeyedVal.strict = self.prev


STRICT = _Strict()


class InjectedFault(MemoryError):
    """A failing allocation / corrupted byte inside (un)pickling."""


class WorkerProc:
    def __init__(self, pid, kind, version, mod):
        self.pid = pid
        self.kind = kind
        self.version = version
        self.mod = mod
        self.alive = True
        self.connected = False
        self.proto = None
        self.transport = None
        self.stream = None
        self.inbox = collections.deque()   # (req_id, payload) waiting to be served
        self.busy = False
        self.template = None


class FakeTransport:
    def __init__(self, world, wk):
        self.world = world
        self.wk = wk
        self._closing = False

    def writelines(self, parts):
        self.world.hub_to_worker(self.wk, b''.join(parts))

    def write(self, data):
        self.world.hub_to_worker(self.wk, data)

    def abort(self):
        self._closing = True
        self.world.server_aborts(self.wk)

    close = abort

    def is_closing(self):
        return self._closing or not self.wk.alive

    def get_extra_info(self, name, default=None):
        return default


class FakeProcTransport:
    """What loop.subprocess_exec returns (template or standalone worker)."""

    def __init__(self, world, pid, kind):
        self.world = world
        self.pid = pid
        self.kind = kind
        self.closed = False
        self.children = []

    def get_pid(self):
        return self.pid

    def terminate(self):
        self.world.terminate_process(self)

    def kill(self):
        self.world.terminate_process(self)

    async def _wait(self):
        return 0

    def close(self):
        self.closed = True

    def is_closing(self):
        return self.closed or all(not c.alive for c in self.children)


class FakeServer:
    def close(self):
        pass

    async def wait_closed(self):
        pass


class FakeSock:
    """The worker side of the unix socket, under the REAL amsg.WorkerConnection: what the
    hub has written and the worker has not read yet is handed over by recv(); after that
    recv() reports EOF, so worker_proc.worker() returns to the simulator; what the worker
    sends (after the 16-byte pid/version greeting, which the simulator delivers itself when
    the process connects) are its replies."""

    def __init__(self, frames):
        self.buf = b''.join(frames)
        self.sent = []
        self.greeted = False
        self.closed = False

    def connect(self, name):
        pass

    def sendall(self, data):
        data = bytes(data)
        if not self.greeted:
            self.greeted = True
            if len(data) != 16:
                raise HarnessError('unexpected greeting from WorkerConnection')
            return
        self.sent.append(data)

    def recv(self, n):
        out, self.buf = self.buf[:n], self.buf[n:]
        return out

    def close(self):
        self.closed = True


class SocketSeam:
    """``socket`` as seen by amsg.py in a simulated worker process."""
    AF_UNIX = 1

    def __init__(self, world):
        self.world = world

    def socket(self, family=None, *a):
        sock = self.world._sock_for_worker
        if sock is None:
            raise HarnessError('a socket was opened outside a simulated worker process')
        return sock

    def __getattr__(self, name):
        import socket as _socket
        return getattr(_socket, name)       # constants etc.


class World:

    def __init__(self, tape, *, stratum='core', mutant=None, record=False, pool_kind=None):
        self.tape = tape
        self.stratum = stratum
        self.record = record
        self.force_kind = pool_kind
        self.ci = self.island_module()
        self.isl = self.ci.load(mutant['patches'] if mutant else None)
        self.mods = self.isl['mods']
        self.violations = []
        self.trace = [] if record else None
        self.faults = collections.Counter()
        self.probes = collections.Counter()
        self.h = hashlib.blake2b(digest_size=8)
        self.frozen = False
        self.nevents = 0

    def island_module(self):
        return ci

    # -- logging ---------------------------------------------------------
    def ev(self, kind, a='', b='', c=''):
        if self.frozen:
            return      # teardown (cancelling what is left) is not part of the run
        self.h.update(f'{kind}|{a}|{b}|{c};'.encode())
        self.nevents += 1
        if self.trace is not None:
            self.trace.append((self.loop.steps, round(self.loop.time(), 6), kind, a, b, c))

    def violate(self, kind, signature, detail):
        if any(v['kind'] == kind and v['signature'] == signature for v in self.violations):
            return
        self.violations.append({'property': 'C17', 'kind': kind, 'signature': signature,
                                'detail': detail, 'step': self.loop.steps,
                                'vtime': round(self.loop.time(), 6)})

    # -- configuration -----------------------------------------------------
    def draw_config(self):
        t = self.tape
        st = self.stratum
        c = {}
        c['pool'] = self.force_kind or t.pick(['fixed', 'multitenant', 'adaptive'], 'pool_kind')
        c['nworkers'] = 1 + t.draw(3, 'nworkers')
        c['ntenants'] = (1 + t.draw(3, 'ntenants')) if c['pool'] == 'multitenant' else 1
        c['cache_size'] = 1 + t.draw(3, 'cache_size')
        c['ndb'] = 1 + t.draw(3, 'ndb')
        c['nclients'] = 1 + t.draw(5, 'nclients')
        c['nreq'] = 2 + t.draw(10, 'nreq')
        c['pmutate'] = t.pick([50, 20, 80], 'pmutate')
        c['svc'] = t.pick([4, 0, 20], 'svc')             # max service latency, ms
        c['think'] = t.pick([5, 0, 30], 'think')
        c['frag'] = t.draw(3, 'frag') == 2               # deliver replies in two chunks
        faulty = st != 'nofault'
        self.keyed = st == 'keyed'
        c['pcrash'] = t.pick([0, 3, 10], 'pcrash') if faulty and t.draw(2, 'f_crash') else 0
        c['nidlecrash'] = t.draw(3, 'nidlecrash') if faulty and t.draw(3, 'f_idlecrash') == 2 else 0
        c['pcerr'] = t.pick([0, 10, 30], 'pcerr') if faulty and t.draw(2, 'f_cerr') else 0
        c['psync'] = t.pick([0, 5, 20], 'psync') if faulty and t.draw(2, 'f_sync') else 0
        c['pdecode'] = t.pick([0, 3, 10], 'pdecode') if faulty and t.draw(3, 'f_decode') == 2 else 0
        c['preply'] = t.pick([0, 3, 10], 'preply') if faulty and t.draw(3, 'f_reply') == 2 else 0
        c['pslow'] = t.pick([0, 5, 20], 'pslow') if faulty and t.draw(2, 'f_slow') else 0
        # a request that takes seconds (adaptive scale-up waits 3 s) and a client
        # that pauses for more than the 60 s scale-down delay; virtual time is free
        c['pstuck'] = t.pick([0, 3], 'pstuck') if t.draw(4, 'f_stuck') == 3 else 0
        c['longpause'] = t.draw(4, 'f_longpause') == 3
        c['ndrop'] = t.draw(3, 'ndrop') if faulty and c['pool'] == 'multitenant' and t.draw(2, 'f_drop') else 0
        c['ntemplatecrash'] = (t.draw(2, 'ntemplatecrash') if faulty and c['pool'] != 'adaptive'
                               and t.draw(4, 'f_tmpl') == 3 else 0)
        c['pcancel'] = t.pick([5, 15, 40], 'pcancel') if st in ('cancel', 'cancel_batch') else 0
        c['ppool'] = t.pick([3, 10, 25], 'ppool') if st == 'poolfault' else 0
        # stratum cancel_batch: a worker whose callers gave up has several requests waiting in its
        # socket; one recv() hands all of them to the worker loop, which serves them back to back
        c['batch'] = st == 'cancel_batch'
        # stratum keyed: database / instance configuration values compare equal by key only
        c['keyed'] = st == 'keyed'
        if c['batch']:
            c['pcancel'] = t.pick([25, 40, 60], 'pcancel_batch')
            c['svc'] = t.pick([20, 40], 'svc_batch')
        self.cfg = c
        return c

    # -- run -------------------------------------------------------------------
    def run(self):
        self.ci.SIM = self
        t = self.tape
        c = self.draw_config()
        loop = self.loop = SimLoop()
        loop.tie_breaker = lambda n: t.draw(n, 'tie')
        self.isl['time'].now = loop.time
        P = self.mods['pool']
        amsg = self.mods['amsg']
        wp = self.mods['worker_proc']
        for memo in list(vars(P).values()):
            if callable(memo) and hasattr(memo, 'cache_clear') and hasattr(memo, 'cache_info'):
                memo.cache_clear()      # process-global caches (pickle memoization): must not leak between runs

        # seams ---------------------------------------------------------------
        self.pool_pickle = self.ci.PickleProxy('pool', self.pickle_hook)
        P.pickle = self.pool_pickle
        self.wp_pickle = self.ci.PickleProxy('worker_proc', self.pickle_hook)
        wp.pickle = self.wp_pickle
        world = self

        import os as _os

        class _OSProxy:
            """``os`` as seen by pool.py: signals go to simulated processes, the environment is
            empty, everything else is the real module."""
            environ = {}

            @staticmethod
            def kill(pid, sig):
                world.os_kill(pid)

            @staticmethod
            def getpid():
                return 4141

            def __getattr__(self, name):
                return getattr(_os, name)
        OSProxy = _OSProxy()
        P.os = OSProxy
        self._sock_for_worker = None
        if not hasattr(amsg, '_verif_real_WorkerConnection'):
            amsg._verif_real_WorkerConnection = amsg.WorkerConnection
        amsg.WorkerConnection = amsg._verif_real_WorkerConnection    # the real class, over a fake socket
        amsg.socket = SocketSeam(self)

        loop.create_unix_server = self.create_unix_server
        loop.subprocess_exec = self.subprocess_exec

        # state -----------------------------------------------------------------
        self.factory = None
        self.procs = {}              # pid -> WorkerProc
        self.next_pid = 1000
        self.templates = []
        self.current_worker = None
        self.armed = None            # worker-side fault armed for the request being served
        self.req_meta = {}           # tag -> dict(injected=[...])
        self.reply_kinds = collections.deque()
        self.open_by_worker = collections.defaultdict(set)
        self.cancelled_tags = set()
        self.wfaults = collections.defaultdict(list)   # pid -> fault kinds since the last clean audit
        self.version = collections.Counter()
        self.next_tag = 0
        self.completed = 0
        self.ok = 0
        self.contended = False
        self.inflight = 0
        self.stopping = False

        self.build_server()

        self.client_tasks = []
        main = None
        try:
            with loop:
                main = loop.harness_task(self.main())
                cap = 400_000
                while not main.done():
                    if not loop.step():
                        break
                    if self.violations:
                        break
                    if loop.steps > cap:
                        raise HarnessError(f'step cap exceeded at vtime={loop.time()}')
                if not self.violations:
                    if not main.done():
                        self.hang()
                    elif main.exception() is not None:
                        e = main.exception()
                        if isinstance(e, HarnessError):
                            raise e
                        raise HarnessError(f'world main failed: {e!r}') from e
        finally:
            self.steps = loop.steps
            self.sim_time = loop.time()
            self.probes['task_failures'] += len(loop.task_failures)
            self.probes['callback_failures'] += len(loop.callback_failures)
            self.internal_errors = ([repr(e)[:200] for _, e in loop.task_failures][:3] +
                                    [repr(ctx.get('exception'))[:200] for ctx in loop.callback_failures][:3])
            self.frozen = True
            loop.shutdown()
            self.ci.SIM = None
        return self.result()

    def build_state(self):
        c = self.cfg
        # server state: versioned tokens with identity
        self.S = {}
        for tn in range(c['ntenants']):
            self.S[tn] = {
                'global': real_pickle.dumps(Tok('G', tn, 0)),
                'sys': immutables.Map({'s': (tn, 0)}),
                'dbs': {},
            }
            for d in range(c['ndb']):
                self.S[tn]['dbs'][f'db{d}'] = self.new_db(tn, d)
        self.history = collections.defaultdict(list)   # (tenant, kind) -> earlier objects

    def build_server(self):
        c, loop, P = self.cfg, self.loop, self.mods['pool']
        self.build_state()
        kind = c['pool']
        common = dict(loop=loop, runstate_dir='/sim', backend_runtime_params=None,
                      std_schema=Tok('std'), refl_schema=Tok('refl'),
                      schema_class_layout=Tok('layout'))
        if kind == 'fixed':
            pool = P.FixedPool(pool_size=c['nworkers'], dbindex=self, **common)
        elif kind == 'adaptive':
            pool = P.SimpleAdaptivePool(pool_size=max(c['nworkers'], 2), dbindex=self, **common)
        else:
            pool = P.MultiTenantPool(pool_size=c['nworkers'], cache_size=c['cache_size'], **common)
        self.pool = pool
        self.wkind = 'multitenant_worker' if kind == 'multitenant' else 'worker'

    def hang(self):
        pend = [i for i, tk in enumerate(self.client_tasks) if not tk.done()]
        live = [p.pid for p in self.procs.values() if p.alive]
        self.probes['hang'] += 1
        self.hung = (pend, live)

    hung = None
    pool_started = False

    async def main(self):
        c, t, loop = self.cfg, self.tape, self.loop
        await self.pool.start()
        self.pool_started = True
        self.ev('pool_started', len(getattr(self.pool, '_workers', ())))
        for i in range(c['nclients']):
            self.client_tasks.append(loop.harness_task(self.client(i)))
        horizon = c['nreq'] * (c['think'] + c['svc'] + 2)
        for _ in range(c['nidlecrash']):
            loop.call_later_external(t.draw(horizon + 1, 'idlecrash_at') * MS, self.idle_crash,
                            t.draw(8, 'idlecrash_which'))
        for _ in range(c['ndrop']):
            loop.call_later_external(t.draw(horizon + 1, 'drop_at') * MS, self.drop_tenant,
                            t.draw(c['ntenants'], 'drop_which'))
        for _ in range(c['ntemplatecrash']):
            loop.call_later_external(t.draw(horizon + 1, 'tmpl_at') * MS, self.template_crash)
        await asyncio.wait(self.client_tasks)
        for tk in self.client_tasks:
            if not tk.cancelled() and tk.exception() is not None:
                raise tk.exception()
        self.audit('at the end of the run (all workers idle)')
        self.stopping = True
        await self.pool.stop()

    # -- DatabaseIndex stand-in -------------------------------------------------
    def get_cached_compiler_args(self):
        s = self.S[0]
        P = self.mods['state']
        dbs = immutables.Map({n: P.PickledDatabaseState(v['us'], v['rc'], v['dc'])
                              for n, v in sorted(s['dbs'].items())})
        return dbs, s['global'], s['sys']

    def new_db(self, tn, d):
        v = self.bump()
        return {'us': real_pickle.dumps(Tok('U', tn, d, v)),
                'rc': immutables.Map({'r': (tn, d, v)}),
                'dc': immutables.Map()}

    def bump(self):
        self.version['v'] += 1
        return self.version['v']

    keyed = False

    def cfgval(self, v):
        return KeyedVal('setting', v) if self.keyed else v

    nmut = 0

    def mutate(self, tn):
        t = self.tape
        self.nmut += 1
        s = self.S[tn]
        names = sorted(s['dbs'])
        which = t.weighted([3, 2, 3, 2, 2, 2, 2, 1, 1, 1], 'mutate_kind')
        if not names:
            which = 8
        db = s['dbs'][names[t.draw(len(names), 'mutate_db')]] if names else None
        v = self.bump()
        H = self.history
        if which == 0:
            H[tn, 'us'].append(db['us'])
            db['us'] = real_pickle.dumps(Tok('U', tn, v))
            self.ev('mut_us', tn)
        elif which == 1:
            H[tn, 'rc'].append(db['rc'])
            db['rc'] = immutables.Map({'r': v}) if t.draw(4, 'rc_empty') else immutables.Map()
            self.ev('mut_rc', tn)
        elif which == 2:
            H[tn, 'dc'].append(db['dc'])
            db['dc'] = immutables.Map({'x': self.cfgval(v)}) if t.draw(3, 'dc_empty') else immutables.Map()
            self.ev('mut_dc', tn)
        elif which == 3:
            H[tn, 'global'].append(s['global'])
            s['global'] = real_pickle.dumps(Tok('G', tn, v))
            self.ev('mut_global', tn)
        elif which == 4:
            H[tn, 'sys'].append(s['sys'])
            s['sys'] = immutables.Map({'s': self.cfgval(v)}) if t.draw(4, 'sys_empty') else immutables.Map()
            self.ev('mut_sys', tn)
        elif which == 5:
            # revert one component to an object used before (same identity)
            comp = t.pick(['dc', 'rc', 'us', 'global', 'sys'], 'revert_comp')
            old = H.get((tn, comp))
            if old:
                o = old[t.draw(len(old), 'revert_which')]
                if comp in ('global', 'sys'):
                    H[tn, comp].append(s[comp])
                    s[comp] = o
                else:
                    H[tn, comp].append(db[comp])
                    db[comp] = o
                self.ev('mut_revert', tn, comp)
        elif which == 6:
            # several at once
            db['us'] = real_pickle.dumps(Tok('U', tn, v))
            db['dc'] = immutables.Map({'x': self.cfgval(v)})
            s['global'] = real_pickle.dumps(Tok('G', tn, v))
            self.ev('mut_multi', tn)
        elif which == 7 and len(names) < 4:
            s['dbs'][f'db{len(names) + 10 * v}'] = self.new_db(tn, v)
            self.ev('mut_newdb', tn)
        elif which == 8 and len(names) > 1:
            s['dbs'].pop(names[-1])
            self.ev('mut_dropdb', tn)
        else:
            # an equal but not identical object (forces identity mismatch only)
            db['dc'] = immutables.Map(dict(db['dc'].items()))
            self.ev('mut_copy', tn)

    # -- clients -------------------------------------------------------------------
    def new_tag(self, method, tn=0):
        self.next_tag += 1
        tag = self.next_tag
        self.req_meta[tag] = {'method': method, 'injected': set(), 'worker': None, 'tn': tn}
        return tag

    async def client(self, i):
        c, t, loop = self.cfg, self.tape, self.loop
        tn = t.draw(c['ntenants'], 'client_tenant')
        txs = 0
        pause_at = t.draw(c['nreq'], 'longpause_at') if c['longpause'] and i == 0 else -1
        for r in range(c['nreq']):
            await self.loop.sleep_external(t.draw(c['think'] + 1, 'think') * MS)
            if r == pause_at:
                self.probes['long_pause'] += 1
                await self.loop.sleep_external(61.0 + t.draw(10, 'longpause_len'))
            if c['ntenants'] > 1 and t.draw(4, 'switch_tenant') == 3:
                tn = t.draw(c['ntenants'], 'client_tenant2')
            if t.chance(c['pmutate'], 100, 'mutate'):
                self.mutate(tn)
            s = self.S[tn]
            names = sorted(s['dbs'])
            if not names:
                continue
            dbn = names[t.draw(len(names), 'req_db')]
            db = s['dbs'][dbn]
            snap = (dbn, db['us'], s['global'], db['rc'], db['dc'], s['sys'])
            method = ('compile', 'tx', 'compile_notebook', 'compile_sql', 'compile_graphql',
                      'simple')[t.weighted([8, 3, 1, 1, 1, 1], 'method')]
            if method == 'tx':
                txs += 1
                await self.do_tx(i, tn, snap, i * 1000 + txs)
            elif method == 'simple':
                await self.do_simple(i, tn)
            else:
                await self.do_call(i, tn, method, snap)

    def opts(self, tag, extra=None):
        o = {}
        if self.cfg['pcerr'] and self.tape.chance(self.cfg['pcerr'], 100, 'compile_error'):
            o['fail'] = True
            self.req_meta[tag]['injected'].add('compile_error')
        if extra:
            o.update(extra)
        return o

    def pool_for(self, tn):
        return self.pool

    def req_opts(self, methname, args):
        return args[-1] if args and isinstance(args[-1], dict) else None

    def kwargs(self, tn):
        return {'client_id': tn} if self.cfg['pool'] == 'multitenant' else {}

    async def guarded(self, i, tag, coro):
        """Await one pool call; returns (status, value)."""
        c, t, loop = self.cfg, self.tape, self.loop
        meta = self.req_meta[tag]
        if self.inflight:
            self.contended = True
        self.inflight += 1
        self.ev('call', i, meta['method'], tag)
        task = loop.harness_task(coro)
        if c['pcancel'] and t.chance(c['pcancel'], 100, 'cancel'):
            loop.call_later_external(t.draw(c['svc'] + 4, 'cancel_after') * MS, self.cancel_call, task, tag)
        try:
            res = await task
            status = 'ok'
        except asyncio.CancelledError:
            if task.cancelled() and 'cancelled' in meta['injected']:
                status, res = 'cancelled', None
            elif self.unexpected_cancel(tag):
                status, res = 'cancelled', None
            else:
                raise
        except Exception as e:
            status, res = 'error', e
        finally:
            self.inflight -= 1
            meta['done'] = True
            if meta['worker'] is not None:
                self.open_by_worker[meta['worker']].discard(tag)
        self.completed += 1
        self.ev('done', i, status, tag)
        if status == 'error':
            self.check_error(tag, res)
        self.audit(f'after call {tag}')
        return status, res

    def unexpected_cancel(self, tag):
        return False

    def cancel_call(self, task, tag):
        if not task.done():
            self.req_meta[tag]['injected'].add('cancelled')
            self.cancelled_tags.add(tag)
            self.faults['cancel_caller'] += 1
            self.ev('cancel', tag)
            task.cancel()

    async def do_call(self, i, tn, method, snap):
        tag = self.new_tag(method, tn)
        o = self.opts(tag)
        fn = getattr(self.pool_for(tn), method)
        status, res = await self.guarded(i, tag, fn(*snap, tag, o, **self.kwargs(tn)))
        if status != 'ok':
            return None
        self.ok += 1
        try:
            return self._check_call_result(tag, method, snap, res)
        except (AttributeError, TypeError, ValueError, IndexError, KeyError) as e:
            # not even the shape of a reply to this kind of request: it was meant for another one
            self.violate('E1', 'reply-of-another-request',
                         f'request {tag} ({method}) was answered with {res!r:.200} ({type(e).__name__}: {e})')
            return None

    def _check_call_result(self, tag, method, snap, res):
        if method == 'compile':
            echo = res[0]
        elif method == 'compile_graphql':
            unit_group, op = res
            self.check_echo(tag, 'compile_graphql', op.echo, snap, skip_rc=True)
            echo = unit_group
            exp = ('echo', 'compile_graphql/compile', tag) + self.expected(snap)
            if tuple(echo) != exp:
                self.echo_violation(tag, 'compile_graphql/compile', echo, exp)
            return res
        else:
            echo = res
        self.check_echo(tag, method, echo, snap)
        return res

    async def do_simple(self, i, tn):
        tag = self.new_tag('interpret_backend_error', tn)
        o = self.opts(tag)
        status, res = await self.guarded(i, tag, self.pool_for(tn).interpret_backend_error(tag, o))
        if status == 'ok':
            self.ok += 1
            if tuple(res) != ('simple', tag):
                self.violate('E1', 'simple-call-wrong-reply', f'request {tag} got {res!r}')

    async def do_tx(self, i, tn, snap, txid):
        c, t = self.cfg, self.tape
        tag = self.new_tag('compile', tn)
        o = self.opts(tag, {'tx': txid})
        status, res = await self.guarded(i, tag, self.pool_for(tn).compile(*snap, tag, o, **self.kwargs(tn)))
        if status != 'ok':
            return
        self.ok += 1
        self.check_echo(tag, 'compile', res[0], snap)
        pstate = res[1]
        sid = res[2] if len(res) > 2 else 0     # (the remote compiler server names the state it keeps)
        if pstate is None:
            self.violate('E1', 'tx-state-missing', f'request {tag} asked for a transaction state, got None')
            return
        seen = [tag]
        root = snap[1]
        for k in range(1 + t.draw(3, 'tx_len')):
            await self.loop.sleep_external(t.draw(c['think'] + 1, 'tx_think') * MS)
            tag = self.new_tag('compile_in_tx', tn)
            o = self.opts(tag)
            self.probes['compile_in_tx'] += 1
            status, res = await self.guarded(
                i, tag, self.pool_for(tn).compile_in_tx(snap[0], root, txid, pstate, sid, tag, o,
                                                        **self.kwargs(tn)))
            if status != 'ok':
                # the server keeps the last good state blob; the session usually goes on in the
                # same transaction (ROLLBACK [TO SAVEPOINT] is compiled with that blob)
                if status == 'error' and t.draw(4, 'tx_continue_after_error'):
                    self.probes['tx_continued_after_error'] += 1
                    continue
                return
            self.ok += 1
            try:
                units, pstate, sid = res
                units = tuple(units)
            except (TypeError, ValueError) as e:
                self.violate('E1', 'reply-of-another-request',
                             f'request {tag} (compile_in_tx) was answered with {res!r:.200} ({type(e).__name__}: {e})')
                return
            exp = ('echo_tx', tag, real_pickle.loads(root), txid, seen, txid)
            if tuple(units) != exp:
                got = tuple(units)
                what = 'root-user-schema' if got[2] != exp[2] else 'transaction-state'
                ctx = '+'.join(sorted(set(self.wfaults[self.req_meta[tag]['worker']]))) or 'no-fault'
                self.violate('E1', f'compile_in_tx-wrong-state[{self.cfg["pool"]}]:after-{ctx}',
                             f'request {tag} (tx {txid}): compiler saw root={got[2]!r} state={got[3:5]!r}, '
                             f'caller supplied root={exp[2]!r} state={exp[3:5]!r}')
                return
            seen = seen + [tag]

    def expected(self, snap):
        return (real_pickle.loads(snap[1]), real_pickle.loads(snap[2]), snap[3], snap[4], snap[5])

    def check_echo(self, tag, method, echo, snap, skip_rc=False):
        with STRICT:
            return self._check_echo(tag, method, echo, snap, skip_rc)

    def _check_echo(self, tag, method, echo, snap, skip_rc=False):
        echo = tuple(echo)
        exp_state = self.expected(snap)
        if skip_rc:
            exp = ('echo', method, tag, exp_state[0], exp_state[1], exp_state[3], exp_state[4])
            names = ('user_schema', 'global_schema', 'database_config', 'instance_config')
        else:
            exp = ('echo', method, tag) + exp_state
            names = ('user_schema', 'global_schema', 'reflection_cache', 'database_config', 'instance_config')
        if echo != exp:
            self.echo_violation(tag, method, echo, exp, names)

    def echo_violation(self, tag, method, echo, exp, names=None):
        names = names or ('user_schema', 'global_schema', 'reflection_cache', 'database_config', 'instance_config')
        wrong = []
        if len(echo) == len(exp) and echo[:3] == exp[:3]:
            wrong = [n for n, a, b in zip(names, echo[3:], exp[3:]) if a != b]
        meta = self.req_meta[tag]
        ctx = '+'.join(sorted(set(self.wfaults[meta['worker']]))) or 'no-fault'
        self.violate('E1', f'stale[{self.cfg["pool"]}]:after-{ctx}',
                     f'request {tag} ({method}) on worker {meta["worker"]}: compiler entry point received '
                     f'{echo[3:]!r}, caller supplied {exp[3:]!r}')

    def check_error(self, tag, e):
        """E2: every failure must be attributable to a fault injected into
        this very request."""
        meta = self.req_meta[tag]
        inj = meta['injected']
        S = self.mods['state']
        ok = False
        if isinstance(e, ci.InjectedCompileError):
            ok = 'compile_error' in inj
        elif isinstance(e, S.FailedStateSync):
            ok = bool(inj & {'sync_fault', 'decode_fault'})
        elif isinstance(e, ConnectionError):
            ok = 'killed' in inj
        elif isinstance(e, InjectedFault):
            # (a worker-side unpickling fault outside __sync__, e.g. of the
            # transaction state in compile_in_tx, surfaces as itself)
            ok = bool(inj & {'decode_fault', 'sync_fault', 'pool_dumps_fault', 'pool_loads_fault'})
        elif isinstance(e, RuntimeError) and 'could not serialize' in str(e):
            ok = 'reply_fault' in inj
        elif isinstance(e, RuntimeError) and 'unexpectedly closed' in str(e):
            ok = True    # the worker it was routed to has just died
            self.probes['routed_to_closed_worker'] += 1
        if not ok:
            ctx = '+'.join(sorted(set(self.wfaults[meta['worker']]))) or 'no-fault'
            self.violate('E2', f'unattributable-{type(e).__name__}[{self.cfg["pool"]},{meta["method"]}]:after-{ctx}',
                         f'request {tag} ({meta["method"]}) on worker {meta["worker"]} failed with {e!r}; '
                         f'faults injected into it: {sorted(inj) or "none"}')

    # -- E3: belief == actual -----------------------------------------------------------
    def audit(self, when):
        with STRICT:
            return self._audit(when)

    def _audit(self, when):
        pool = self.pool
        try:
            workers = list(pool._workers.items())
        except Exception:
            self.probes['audit_unavailable'] += 1
            return
        for pid, w in workers:
            proc = self.procs.get(pid)
            if proc is None or not proc.alive or proc.busy or proc.inbox:
                continue
            if self.open_by_worker.get(pid):
                # a reply has been delivered but the server-side coroutine has
                # not resumed yet: its acknowledgement is legitimately pending
                continue
            try:
                diffs = self.audit_worker(w, proc)
            except Exception as e:
                self.probes['audit_unavailable'] += 1
                continue
            self.probes['audits'] += 1
            if not diffs:
                self.wfaults[pid].clear()
            if diffs:
                ctx = '+'.join(sorted(set(self.wfaults[pid]))) or 'no-fault'
                comps = sorted({d[0] for d in diffs})
                what = 'missing' if any(x.startswith('missing') for x in comps) else 'differs'
                self.violate('E3', f'belief-{what}[{self.cfg["pool"]}]:after-{ctx}',
                             f'{when}: server-side record of worker {pid} differs from what the worker holds: '
                             + '; '.join(f'{k}: server believes {a!r}, worker holds {b!r}' for k, a, b in diffs[:4]))

    def audit_worker(self, w, proc):
        diffs = []
        mod = proc.mod
        ld = real_pickle.loads
        if self.wkind == 'worker':
            if not hasattr(mod, 'INITED') or not hasattr(mod, 'DBS'):
                raise AttributeError('worker globals renamed: audit unavailable')
            if not mod.INITED:
                return diffs
            for name, pdb in sorted(w._dbs.items()):
                actual = mod.DBS.get(name)
                if actual is None:
                    diffs.append(('missing-db', name, None))
                    continue
                if pdb.user_schema_pickle is not None and ld(pdb.user_schema_pickle) != actual.user_schema:
                    diffs.append(('user_schema', ld(pdb.user_schema_pickle), actual.user_schema))
                if pdb.reflection_cache != actual.reflection_cache:
                    diffs.append(('reflection_cache', pdb.reflection_cache, actual.reflection_cache))
                if pdb.database_config != actual.database_config:
                    diffs.append(('database_config', pdb.database_config, actual.database_config))
            # (None = the server has deliberately forgotten: no belief to check)
            if w._global_schema_pickle is not None and ld(w._global_schema_pickle) != mod.GLOBAL_SCHEMA:
                diffs.append(('global_schema', ld(w._global_schema_pickle), mod.GLOBAL_SCHEMA))
            if w._system_config is not None and w._system_config != mod.INSTANCE_CONFIG:
                diffs.append(('instance_config', w._system_config, mod.INSTANCE_CONFIG))
        else:
            if not hasattr(mod, 'clients'):
                raise AttributeError('worker globals renamed: audit unavailable')
            pending_inval = set(w._invalidated_clients)
            for cid, ts in sorted(w._cache.items()):
                if cid in pending_inval:
                    continue
                actual = mod.clients.get(cid)
                if actual is None:
                    diffs.append(('missing-tenant', cid, None))
                    continue
                for name, pdb in sorted(ts.dbs.items()):
                    adb = actual.dbs.get(name)
                    if adb is None:
                        diffs.append(('missing-db', (cid, name), None))
                        continue
                    if ld(pdb.user_schema_pickle) != adb.user_schema:
                        diffs.append(('user_schema', ld(pdb.user_schema_pickle), adb.user_schema))
                    if pdb.reflection_cache != adb.reflection_cache:
                        diffs.append(('reflection_cache', pdb.reflection_cache, adb.reflection_cache))
                    if pdb.database_config != adb.database_config:
                        diffs.append(('database_config', pdb.database_config, adb.database_config))
                if ld(ts.global_schema_pickle) != actual.global_schema:
                    diffs.append(('global_schema', ld(ts.global_schema_pickle), actual.global_schema))
                if ts.system_config != actual.instance_config:
                    diffs.append(('instance_config', ts.system_config, actual.instance_config))
        return diffs

    # -- process / transport simulation ------------------------------------------------------
    async def create_unix_server(self, factory, path=None, **kw):
        self.factory = factory
        return FakeServer()

    async def subprocess_exec(self, protocol_factory, *cmd, **kw):
        cmd = list(cmd)
        numproc = int(cmd[cmd.index('--numproc') + 1]) if '--numproc' in cmd else None
        version = int(cmd[cmd.index('--version-serial') + 1])
        mod = cmd[cmd.index('-m') + 1].rpartition('.')[2]
        proto = protocol_factory()
        self.next_pid += 1
        tr = FakeProcTransport(self, self.next_pid, 'template' if numproc else 'worker')
        tr.proto = proto
        tr.version = version
        tr.mod = mod
        if numproc:
            self.templates.append(tr)
            for _ in range(numproc):
                tr.children.append(self.spawn(mod, version, template=tr))
        else:
            tr.children.append(self.spawn(mod, version, template=None, pid=tr.pid))
        self.ev('exec', tr.kind, numproc or 1, version)
        if self.pool_started and not numproc:
            self.probes['adaptive_worker_spawned_after_start'] += 1
        return tr, proto

    def spawn(self, kind, version, template=None, pid=None, delay=None):
        if pid is None:
            self.next_pid += 1
            pid = self.next_pid
        wk = WorkerProc(pid, kind, version, self.ci.new_worker_module(kind))
        wk.template = template
        wk.mod.pickle = self.ci.PickleProxy('worker', self.pickle_hook)
        self.procs[pid] = wk
        if delay is None:
            delay = (1 + self.tape.draw(5, 'spawn_delay')) * MS
        self.loop.call_later_external(delay, self.worker_connects, wk)
        return wk

    def worker_connects(self, wk):
        if not wk.alive or self.stopping or self.factory is None:
            return
        if wk.template is not None and any(tr.version > wk.version for tr in self.templates):
            self.probes['outdated_worker_connects'] += 1
        wk.proto = self.factory()
        wk.transport = FakeTransport(self, wk)
        wk.stream = self.mods['amsg'].MessageStream()
        wk.connected = True
        wk.proto.connection_made(wk.transport)
        self.ev('worker_connect', wk.version)
        wk.proto.data_received(PK(wk.pid) + PK(wk.version))

    def hub_to_worker(self, wk, data):
        if not wk.alive:
            # written to a process that is already dead (the hub has not
            # noticed yet): the request is lost with the connection
            for msg in wk.stream.feed_data(data):
                try:
                    m, a = real_pickle.loads(bytes(memoryview(msg)[8:]))
                    meta = self.req_meta.get(self.tag_of(m, a))
                    if meta is not None:
                        meta['injected'].add('killed')
                except Exception:
                    pass
            return
        for msg in wk.stream.feed_data(data):
            mv = memoryview(msg)
            req_id = UNPK(mv[:8])[0]
            wk.inbox.append((req_id, bytes(mv[8:])))
        self.pump(wk)

    def pump(self, wk):
        if wk.busy or not wk.inbox or not wk.alive:
            return
        wk.busy = True
        c, t = self.cfg, self.tape
        lat = t.draw(c['svc'] + 1, 'svc')
        if c['pslow'] and t.chance(c['pslow'], 100, 'slow_worker'):
            lat = 20 + lat * 5
            self.faults['slow_worker'] += 1
        if c['pstuck'] and t.chance(c['pstuck'], 100, 'stuck_worker'):
            lat = 3500 + lat * 100
            self.faults['very_slow_worker'] += 1
        self.loop.call_later_external(lat * MS, self.serve, wk)

    def serve(self, wk):
        if not wk.alive:
            return
        c, t = self.cfg, self.tape
        req_id, payload = wk.inbox.popleft()
        methname, args = real_pickle.loads(payload)
        tag = self.tag_of(methname, args)
        meta = self.req_meta.get(tag)
        is_init = methname == '__init_worker__'
        extra = []          # further requests read from the socket in the same recv()
        if c.get('batch') and wk.inbox and not is_init:
            for _ in range(t.draw(len(wk.inbox) + 1, 'batch_extra')):
                rid2, payload2 = wk.inbox.popleft()
                m2, a2 = real_pickle.loads(payload2)
                extra.append((rid2, payload2, m2, a2, self.req_meta.get(self.tag_of(m2, a2))))
            if extra:
                self.probes['requests_served_in_one_read'] += 1 + len(extra)
        for (mn, ar, mt) in [(methname, args, meta)] + [(x[2], x[3], x[4]) for x in extra]:
            if mt is not None:
                mt['worker'] = wk.pid
                tg = self.tag_of(mn, ar)
                if tg in self.cancelled_tags:
                    self.wfaults[wk.pid].append('cancelled')
                if (self.req_opts(mn, ar) or {}).get('fail'):
                    self.wfaults[wk.pid].append('compile_error')
                if not mt.get('done'):
                    self.open_by_worker[wk.pid].add(tg)
            if mn != '__init_worker__':
                self.note_transfer(mn, ar)
        if not is_init and c['pcrash'] and t.chance(c['pcrash'], 100, 'crash_before'):
            self.faults['crash_before_request'] += 1
            for mt in [meta] + [x[4] for x in extra]:
                if mt is not None:
                    mt['injected'].add('killed')
            self.kill(wk, respawn=True)
            return
        # arm at most one worker-side fault for this request (none when several are served at once:
        # the fault could not be attributed to one of them)
        self.armed = None
        if not is_init and meta is not None and not extra:
            if c['pdecode'] and t.chance(c['pdecode'], 100, 'decode_fault'):
                self.armed = ['worker_proc', 'loads', 0, 'decode_fault', meta]
            elif c['psync'] and t.chance(c['psync'], 100, 'sync_fault'):
                self.armed = ['worker', 'loads', t.draw(5, 'sync_fault_at'), 'sync_fault', meta]
            elif c['preply'] and t.chance(c['preply'], 100, 'reply_fault'):
                self.armed = ['worker_proc', 'dumps', 0, 'reply_fault', meta]
        self.current_worker = wk
        sock = FakeSock([PK(len(p_) + 8) + PK(r_) + p_ for r_, p_ in [(req_id, payload)] + [(x[0], x[1]) for x in extra]])
        self._sock_for_worker = sock
        try:
            self.mods['worker_proc'].worker('sock', wk.version, wk.mod.get_handler)
        finally:
            self._sock_for_worker = None
            self.current_worker = None
            self.armed = None
        self.ev('served', methname, tag or 0)
        replies = [bytes(m) for m in self.mods['amsg'].MessageStream().feed_data(b''.join(sock.sent))]
        if len(replies) != 1 + len(extra):
            raise HarnessError(f'worker produced {len(replies)} replies to {1 + len(extra)} request(s)')
        if not is_init and c['pcrash'] and t.chance(c['pcrash'], 100, 'crash_after'):
            self.faults['crash_after_request'] += 1
            for mt in [meta] + [x[4] for x in extra]:
                if mt is not None:
                    mt['injected'].add('killed')
            self.kill(wk, respawn=True)
            return
        wk.busy = False
        for reply, mt in zip(replies, [meta] + [x[4] for x in extra]):
            if not wk.alive or not wk.connected:
                break
            rid, out = UNPK(reply[:8])[0], reply[8:]
            frame = PK(len(out) + 8) + PK(rid) + out
            self.deliver(wk, rid, frame, is_init, mt)
        self.pump(wk)

    def note_transfer(self, methname, args):
        """Reach probes: how much state travelled with this request."""
        try:
            marker = self.mods['state'].REUSE_LAST_STATE_MARKER
            if methname == 'compile_in_tx':
                if self.wkind == 'worker':
                    dbname, us, cstate = args[0], args[1], args[2]
                else:
                    dbname, us, cstate = args[2], args[3], args[4]
                if cstate == marker:
                    self.probes['in_tx:reuse_marker'] += 1
                elif dbname is not None:
                    self.probes['in_tx:state+dbname_reference'] += 1
                else:
                    self.probes['in_tx:state+root_schema'] += 1
            elif methname == 'call_for_client':
                ps, inval = args[1], args[2]
                if inval:
                    self.probes['mt:invalidation_sent'] += 1
                if ps is None:
                    self.probes['sent:nothing'] += 1
                elif ps.global_schema is not None and ps.instance_config is not None and ps.dbs is not None:
                    self.probes['sent:full_or_all'] += 1
                else:
                    self.probes['sent:partial'] += 1
            elif methname in ('compile', 'compile_notebook', 'compile_sql', 'compile_graphql'):
                n = sum(1 for a in args[1:6] if a is not None)
                self.probes['sent:nothing' if n == 0 else 'sent:full_or_all' if n == 5 else 'sent:partial'] += 1
                if 0 < n < 5:
                    mask = ''.join(k for k, a in zip('urgds', args[1:6]) if a is not None)
                    self.probes['sent:partial:' + mask] += 1
        except Exception:
            self.probes['transfer_probe_unavailable'] += 1

    def deliver(self, wk, rid, frame, is_init, meta):
        proto = wk.proto
        waiter = proto._resp_waiters.get(rid) if hasattr(proto, '_resp_waiters') else None
        if waiter is not None and not waiter.done():
            self.reply_kinds.append((is_init, meta))
        if self.cfg['frag'] and len(frame) > 20:
            cut = 8 + self.tape.draw(len(frame) - 9, 'frag_at')
            proto.data_received(frame[:cut])
            proto.data_received(frame[cut:])
        else:
            proto.data_received(frame)

    def tag_of(self, methname, args):
        """Every request of this world ends with (tag, opts)."""
        if methname == '__init_worker__':
            return None
        if (len(args) >= 2 and isinstance(args[-1], dict) and isinstance(args[-2], int)
                and args[-2] in self.req_meta):
            return args[-2]
        return None

    def on_compiler_entry(self, wk, method, tag):
        self.probes['entry:' + method] += 1

    def pickle_hook(self, site, op, obj):
        a = self.armed
        if a is not None and a[0] == site and a[1] == op:
            if a[2] == 0:
                self.armed = None
                a[4]['injected'].add(a[3])
                if self.current_worker is not None:
                    self.wfaults[self.current_worker.pid].append(a[3])
                self.faults[a[3]] += 1
                self.ev('fault', a[3])
                raise InjectedFault(f'injected {a[3]}')
            a[2] -= 1
            return
        if site == 'pool' and self.cfg['ppool']:
            if op == 'loads':
                if not self.reply_kinds:
                    return
                is_init, meta = self.reply_kinds.popleft()
                if is_init or meta is None:
                    return
                if self.tape.chance(self.cfg['ppool'], 100, 'pool_loads_fault'):
                    meta['injected'].add('pool_loads_fault')
                    self.wfaults[meta['worker']].append('pool_loads_fault')
                    self.faults['pool_loads_fault'] += 1
                    self.ev('fault', 'pool_loads')
                    raise InjectedFault('injected failure decoding the reply on the server')
            elif (isinstance(obj, tuple) and len(obj) == 2 and isinstance(obj[0], str)
                  and obj[0] != '__init_worker__'):
                tag = self.tag_of(obj[0], obj[1])
                meta = self.req_meta.get(tag)
                if meta is not None and self.tape.chance(self.cfg['ppool'], 100, 'pool_dumps_fault'):
                    meta['injected'].add('pool_dumps_fault')
                    self.faults['pool_dumps_fault'] += 1
                    self.ev('fault', 'pool_dumps')
                    raise InjectedFault('injected failure encoding the request on the server')
        elif site == 'pool' and op == 'loads' and self.reply_kinds:
            self.reply_kinds.popleft()

    # -- process death ---------------------------------------------------------------------
    def kill(self, wk, respawn):
        """The worker process dies abruptly (SIGKILL / OOM): the hub sees the
        connection drop; a template process forks a replacement."""
        if not wk.alive:
            return
        wk.alive = False
        wk.busy = False
        # requests already written to the dead process are lost
        for req_id, payload in wk.inbox:
            try:
                m, a = real_pickle.loads(payload)
                meta = self.req_meta.get(self.tag_of(m, a))
                if meta is not None:
                    meta['injected'].add('killed')
            except Exception:
                pass
        wk.inbox.clear()
        # whatever is in flight on this connection is lost with it
        if wk.proto is not None:
            for rid in list(getattr(wk.proto, '_resp_waiters', {})):
                pass
            self.mark_inflight_killed(wk)
            self.loop.call_soon(self.connection_lost, wk)
        self.ev('kill', wk.version)
        if respawn and not self.stopping:
            if wk.template is not None and not wk.template.closed:
                nw = self.spawn(wk.kind, wk.version, template=wk.template,
                                delay=(1 + self.tape.draw(40, 'respawn_delay')) * MS)
                wk.template.children.append(nw)
            elif wk.template is None:
                # standalone worker (adaptive pool): the pool itself restarts it
                pass

    def mark_inflight_killed(self, wk):
        for tag, meta in self.req_meta.items():
            if meta['worker'] == wk.pid:
                meta['injected'].add('killed')

    def connection_lost(self, wk):
        if wk.proto is not None and wk.connected:
            wk.connected = False
            wk.proto.connection_lost(None)
            if wk.template is None:
                # standalone process: tell the pool's SubprocessProtocol
                pass

    def server_aborts(self, wk):
        """The hub closed the connection: the worker reads EOF and exits 0
        (no respawn by the template)."""
        if wk.alive:
            # (the pool retires outdated workers without checking whether they
            # are busy: their callers get ConnectionError -- an availability
            # matter, not a state-transfer one)
            self.mark_inflight_killed(wk)
            for req_id, payload in wk.inbox:
                try:
                    m, a = real_pickle.loads(payload)
                    meta = self.req_meta.get(self.tag_of(m, a))
                    if meta is not None:
                        meta['injected'].add('killed')
                except Exception:
                    pass
            wk.alive = False
            wk.busy = False
            wk.inbox.clear()
            self.ev('server_abort', wk.version)
            if not self.stopping:
                self.probes['worker_retired_by_pool'] += 1
            self.loop.call_soon(self.connection_lost, wk)

    def os_kill(self, pid):
        wk = self.procs.get(pid)
        if wk is None:
            raise ProcessLookupError(pid)
        self.ev('os_kill', wk.version)
        self.probes['adaptive_scale_down_kill'] += 1
        if wk.alive:
            self.mark_inflight_killed(wk)
            wk.alive = False
            wk.busy = False
            wk.inbox.clear()
            self.loop.call_soon(self.connection_lost, wk)

    def terminate_process(self, tr):
        tr.closed = True
        for ch in tr.children:
            if ch.alive:
                ch.alive = False
                ch.busy = False
                ch.inbox.clear()
                self.loop.call_soon(self.connection_lost, ch)

    def idle_crash(self, which):
        live = [p for p in self.procs.values() if p.alive and p.connected]
        if not live or self.stopping:
            return
        wk = live[which % len(live)]
        self.faults['crash_idle' if not wk.busy and not wk.inbox else 'crash_busy'] += 1
        self.kill(wk, respawn=True)

    def drop_tenant(self, tn):
        if self.stopping:
            return
        self.faults['drop_tenant'] += 1
        for pid in self.procs:
            self.wfaults[pid].append('drop_tenant')
        self.ev('drop_tenant', tn)
        self.pool.drop_tenant(tn)

    def template_crash(self):
        """The template process is SIGKILLed; its children survive. The pool
        starts a new template (higher version) and retires outdated workers."""
        if self.stopping:
            return
        live = [tr for tr in self.templates if not tr.closed]
        if not live:
            return
        tr = live[-1]
        tr.closed = True
        self.faults['template_crash'] += 1
        self.ev('template_crash', tr.version)
        tr.proto.process_exited()

    # -- result ------------------------------------------------------------------------------
    def result(self):
        return {
            'violations': self.violations,
            'digest': int.from_bytes(self.h.digest(), 'big'),
            'nontrivial': bool(self.contended or self.nmut),
            'steps': self.steps,
            'sim_time': self.sim_time,
            'faults': dict(self.faults),
            'probes': dict(self.probes),
            'served': self.ok,
            'config': dict(self.cfg),
            'internal_errors': self.internal_errors,
            'trace': self.trace,
            'hung': self.hung,
            'bound': 0.0,
        }


def run(tape, **opts):
    return World(tape, **opts).run()
