#!/venv/bin/python
"""Regenerates MANIFEST.json from the table below (kept in one place so that
the not_applicable list and the claimed checks can never drift apart)."""
import json, os, sys
HERE = os.path.dirname(os.path.dirname(os.path.abspath(__file__)))
PY = '/venv/bin/python'

NA = {
 'C01': 'print/re-parse round trip is a pure function of the source text; no schedule, clock, I/O, fault or second party for a simulator to control (and the native parser edb._edgeql_parser cannot be built offline here)',
 'C02': 'computed migration is a pure, deterministic function of the schema pair (A, B); nothing to schedule or fault; anchored code needs the unbuildable native parser',
 'C03': 'DESCRIBE output is a pure function of the schema and session aliases; no concurrency, time or I/O; needs the unbuildable native parser',
 'C04': 'single-threaded sequence of deterministic commands over a persistent immutable map; a command failing part-way is fixed by the input, not an injectable fault; needs the unbuildable native parser',
 'C05': 'backend catalog is a pure fold over the emitted DDL operations; no I/O, schedule or fault dimension; needs the unbuildable native parser',
 'C06': 'cardinality/multiplicity inference soundness is a pure function of (query, data); not a simulation target',
 'C07': 'access-policy application is a pure function of (query, schema); not a simulation target',
 'C08': 'capability computation is a pure function of the statement; not a simulation target',
 'C10': 'migration path-independence is a pure function of the schema chain; not a simulation target',
 'C11': 'SDL declaration-order independence is a pure function of the document/permutation; not a simulation target',
 'C12': 'inferred types vs values is a pure function of (query, data); not a simulation target',
 'C13': 'SQL scoping/parameters/determinism is a pure function of (query, schema); "deterministic" refers to repeated compilation, not a schedule',
 'C14': 'type descriptors are a pure function of (query, schema, protocol version); not a simulation target',
 'C18': 'quoting is a pure function of the string; not a simulation target',
 'C19': 'sequential application of immutable operations to immutable maps plus a serialise/parse round trip; no storage fault or concurrency in the anchored code',
 'C20': 'dependency ordering is a pure function of the graph; exhaustive small-graph enumeration would be model checking / property testing, not simulation',
}

CHECKS = {}   # filled in as worlds are built; see below


def check(pid, text, note, technique, design_ref):
    return {
        'property_id': pid,
        'quick_cmd': f'{PY} check {pid} --tier quick',
        'thorough_cmd': f'{PY} check {pid} --tier thorough',
        'evidence_file': f'/verif/evidence/{pid}.json',
        'replay_cmd_template': f'{PY} check {pid} --replay {{path}}',
        'engine': 'dst',
        'level_claimed': {'category': 'exploration', 'text': text, 'design_ref': design_ref},
        'level_note': note,
        'technique': technique,
    }

CLAIMED = json.load(open(os.path.join(HERE, 'tools', 'claimed.json'))) if os.path.exists(os.path.join(HERE, 'tools', 'claimed.json')) else {}

def main():
    checks = [check(pid, **CLAIMED[pid]) for pid in sorted(CLAIMED)]
    na = [{'property_id': p, 'reason': r} for p, r in sorted(NA.items())]
    pending = {
        'C09': 'check under construction (deterministic simulation of compiler transaction state; see DESIGN.md section 6)',
        'C15': 'check under construction (deterministic simulation of the connection pool; see DESIGN.md section 4)',
        'C16': 'check under construction (deterministic simulation of the connection pool; see DESIGN.md section 4)',
        'C17': 'check under construction (deterministic simulation of compiler-pool state transfer; see DESIGN.md section 5)',
    }
    for p, r in sorted(pending.items()):
        if p not in CLAIMED:
            na.append({'property_id': p, 'reason': r})
    na.sort(key=lambda d: d['property_id'])
    m = {
        'version': 1,
        'setup_cmd': f'{PY} check --setup',
        'hooks': {
            'guard': 'EDGEDB_VERIF_SIM',
            'enable': 'not needed: every seam is a module attribute of a simulator-loaded copy of the module under test or an event-loop method; no source change in /repo',
            'baseline_off_cmd': 'cd /repo && /venv/bin/python -m pytest -ra -q -p no:cacheprovider --timeout=900 --continue-on-collection-errors',
            'source_commits': [],
            'add_only': True,
        },
        'engines': [{
            'name': 'dst', 'path': '/verif/sim',
            'serves_properties': sorted(CLAIMED),
            'kind_free_text': 'deterministic simulation with fault injection: virtual-time asyncio loop, choice-tape PRNG, island loader for the real modules, seeded swarm search, tape shrinker, fresh-interpreter replay',
        }],
        'checks': checks,
        'not_applicable': na,
        'notes': 'See DESIGN.md. Exit codes: 0 held (possibly KNOWN-FINDING lines), 1 VIOLATION, 2 harness error.',
    }
    json.dump(m, open(os.path.join(HERE, 'MANIFEST.json'), 'w'), indent=1)
    print('wrote MANIFEST.json with', len(checks), 'checks,', len(na), 'n/a')

main()
