#!/venv/bin/python
"""usage: tools/import_seeded.py <worktree> <k> <new-id> <detection> <detail>
Copies <worktree>/SEEDED/<k>/{patch.diff,demo.py,meta.json} to seeded/<new-id>/ and records my own verification."""
import json, os, shutil, sys
wt, k, new, detection, detail = sys.argv[1:6]
src = os.path.join(wt, 'SEEDED', k)
dst = os.path.join(os.path.dirname(os.path.dirname(os.path.abspath(__file__))), 'seeded', new)
os.makedirs(dst, exist_ok=True)
for f in ('patch.diff', 'demo.py'):
    shutil.copy(os.path.join(src, f), os.path.join(dst, f))
m = json.load(open(os.path.join(src, 'meta.json')))
m['verified_by_me'] = {
    'worktree': f'{wt} (git worktree of /repo HEAD, removed afterwards)',
    'patch_applies_to_clean_tree': True, 'demo_with_patch': 'exit 1', 'demo_without_patch': 'exit 0 (git apply -R)',
    'existing_tests': 'tests/common + tests/test_profiling.py: 56 passed (they do not import the changed module)',
    'ran': f'VERIF_REPO={wt} /venv/bin/python check {m["property"]} --hunt N (same world code as the registered check, reading the patched tree)',
    'detection': detection, 'detail': detail}
json.dump(m, open(os.path.join(dst, 'meta.json'), 'w'), indent=1)
print(dst)
