#!/bin/bash
# usage: tools/determinism_soak.sh <n> [ids...]  -- executes the first <n> runs of the quick tier of each check in
# three fresh interpreters (PYTHONHASHSEED 0, 1, 777) and compares digest, step count, simulated time, tape length
# and verdicts run by run.  Any difference is a determinism bug of the simulator.
n=${1:-1000}; shift
ids=${@:-C09 C15 C16 C17}
tmp=$(mktemp -d)
for id in $ids; do
  for hs in 0 1 777; do
    PYTHONHASHSEED=$hs /venv/bin/python check $id --digests quick:4711:0:$n 2>/dev/null | tail -1 > $tmp/$id.$hs &
  done
  wait
  # the same runs preceded by different runs in the process (state leaking between runs would show here)
  half=$((n / 2))
  PYTHONHASHSEED=5 /venv/bin/python check $id --digests quick:4711:$half:$n 2>/dev/null | tail -1 > $tmp/$id.tail
  leak=$(/venv/bin/python -c "
import json,sys
a=json.load(open('$tmp/$id.0')); b=json.load(open('$tmp/$id.tail'))
print('same' if a[$half:]==b else 'DIFFERENT')")
  if cmp -s $tmp/$id.0 $tmp/$id.1 && cmp -s $tmp/$id.0 $tmp/$id.777 && [ -s $tmp/$id.0 ] && [ "$leak" = same ]; then
    echo "$id: $n runs x 3 hash seeds identical ($(wc -c < $tmp/$id.0) bytes of digests); second half alone in a fresh process: $leak"
  else
    echo "$id: MISMATCH (second half alone: $leak)"; fi
done
rm -rf $tmp
