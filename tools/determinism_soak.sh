#!/bin/bash
# usage: tools/determinism_soak.sh <n> [ids...]  -- executes the first <n> runs of the quick tier of each check in
# three fresh interpreters (PYTHONHASHSEED 0, 1, 777) and compares digest, step count, simulated time, tape length
# and verdicts run by run.  Any difference is a determinism bug of the simulator.
n=${1:-1000}; shift
ids=${@:-C09 C15 C16 C17}
tmp=$(mktemp -d)
for id in $ids; do
  for hs in 0 1 777; do
    PYTHONHASHSEED=$hs /venv/bin/python check $id --digests quick:4711:0:$n 2>/dev/null | tail -1 > $tmp/$id.$hs &
  done
  wait
  if cmp -s $tmp/$id.0 $tmp/$id.1 && cmp -s $tmp/$id.0 $tmp/$id.777 && [ -s $tmp/$id.0 ]; then
    echo "$id: $n runs x 3 hash seeds identical ($(wc -c < $tmp/$id.0) bytes of digests)"
  else
    echo "$id: MISMATCH"; fi
done
rm -rf $tmp
