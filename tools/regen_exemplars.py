#!/venv/bin/python
"""Regenerates the exemplar replays of the *fixed* findings: each is searched
for with the fix reverted in memory (the revert mutant), minimised, and stored
with the mutant's name, so that `check` can (a) replay it on the tree as is --
it must not reproduce -- and (b) replay it with the revert applied -- it must.
Needed whenever the draw structure of a world changes (tapes are positional).

usage: tools/regen_exemplars.py [finding-id ...]
"""
import json, os, shutil, sys
HERE = os.path.dirname(os.path.dirname(os.path.abspath(__file__)))
sys.path.insert(0, HERE)
os.chdir(HERE)
from sim import cli, runner  # noqa

doc = json.load(open('known_findings.json'))
want = set(sys.argv[1:])
for f in doc['fixed']:
    if want and f['id'] not in want:
        continue
    spec = cli.get_spec(f['property'])
    mutant = {m['name']: m for m in spec.mutants}[f['revert_mutant']]
    d = f['exemplar_dir']
    shutil.rmtree(d, ignore_errors=True)
    os.makedirs(d)
    ex = runner.make_pool(spec)
    found = {}
    for stratum in (mutant.get('strata') or [None]):
        for attempt in range(6):
            tot = runner.batch(ex, spec, 'quick', 1000 + attempt, 40000, mutant=mutant,
                               only_stratum=stratum, max_viol=2)
            for (i, sd, st, used, v) in tot['violations']:
                k = runner.vkey(v)
                if k not in found or len(used) < len(found[k][3]):
                    found[k] = (i, sd, st, used, v)
            if len(found) >= f.get('want_exemplars', 3):
                break
        if len(found) >= f.get('want_exemplars', 3):
            break
    runner.close_pool(ex)
    items = sorted(found.values(), key=lambda x: len(x[3]))[:f.get('want_exemplars', 3)]
    ex = runner.make_pool(spec)          # same mutant: these workers load the island with it
    clean = runner.make_pool(spec)
    for (i, sd, st, used, v) in items:
        mini, natt = runner.in_worker(ex, runner._minimise_job, used, st, v, 800, mutant)
        res, _ = runner.in_worker(ex, runner._run_values_job, mini, st, mutant, True, True)
        v2 = next(x for x in res['violations'] if runner.vkey(x) == runner.vkey(v))
        path = os.path.join(d, f'{f["property"]}-{v["kind"]}-{runner.hash_str(v["signature"] + st) % 10**8:08d}.json')
        runner.write_replay(spec, path, mini, st, v2, seed=sd, index=i, res=res,
                            shrink_attempts=natt, original_len=len(used), mutant=mutant)
        # must not reproduce without the mutant
        res0, _ = runner.in_worker(clean, runner._run_values_job, mini, st, None, False, False)
        ok = not any(spec.relevant(x) for x in res0['violations'])
        print(f['id'], path, runner.vkey(v), 'tape', len(mini), 'clean-on-tree' if ok else 'STILL FAILS ON TREE')
    runner.close_pool(ex)
    runner.close_pool(clean)
