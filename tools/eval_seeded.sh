#!/bin/bash
# usage: tools/eval_seeded.sh <worktree> <property> [tier]
# Confirms a sub-agent's breaking change in its scratch worktree (patch applies to the clean tree, demo fails with it
# and passes without it, pinned tests unaffected), then runs the property's check against that tree (VERIF_REPO), so
# /repo itself is never touched.  The worktree is left with the change applied.
wt=$1; prop=$2; tier=${3:-quick}
cd $wt || exit 2
git apply -R SEEDED/patch.diff 2>/dev/null   # to clean tree (if applied)
if [ -n "$(git status --porcelain --untracked-files=no)" ]; then echo "tree not clean after reverting patch.diff:"; git status --short | head; fi
timeout 120 /venv/bin/python SEEDED/demo.py > /tmp/wt/demo_without_$(basename $wt).txt 2>&1; echo "demo WITHOUT change: exit=$? $(tail -1 /tmp/wt/demo_without_$(basename $wt).txt | cut -c1-200)"
git apply SEEDED/patch.diff || { echo "patch does not apply to the clean tree"; exit 2; }
timeout 120 /venv/bin/python SEEDED/demo.py > /tmp/wt/demo_with_$(basename $wt).txt 2>&1; echo "demo WITH change:    exit=$? $(tail -1 /tmp/wt/demo_with_$(basename $wt).txt | cut -c1-200)"
echo "tests with change: $(timeout 900 /venv/bin/python -m pytest -q -p no:cacheprovider --timeout=900 --continue-on-collection-errors tests/common tests/test_profiling.py 2>&1 | tail -1)"
git diff --stat -- edb | tail -3
cd /verif
out=$(VERIF_REPO=$wt VERIF_NO_MUTANTS=1 /venv/bin/python check $prop --tier $tier 2>&1); rc=$?
echo "check $prop --tier $tier on the changed tree: exit=$rc violations=$(echo "$out" | grep -c '^VIOLATION')"
echo "$out" | grep -A1 '^VIOLATION' | grep 'kind=' | head -4 | cut -c1-220
echo "$out" | grep -i "harness\|Traceback" | head -3
git checkout -- evidence/ 2>/dev/null
