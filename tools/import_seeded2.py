#!/venv/bin/python
"""usage: tools/import_seeded2.py <worktree> <new-id> <property> <needs> <detection> <detail>
Round-5 layout: <worktree>/SEEDED/{patch.diff,demo.py,notes.md}.  Copies them to seeded/<new-id>/ and writes meta.json
(which property it breaks, what it needs in order to manifest, what I ran)."""
import json, os, shutil, sys
wt, new, prop, needs, detection, detail = sys.argv[1:7]
src = os.path.join(wt, 'SEEDED')
dst = os.path.join(os.path.dirname(os.path.dirname(os.path.abspath(__file__))), 'seeded', new)
os.makedirs(dst, exist_ok=True)
for f in ('patch.diff', 'demo.py', 'notes.md'):
    shutil.copy(os.path.join(src, f), os.path.join(dst, f))
m = {
    'property': prop,
    'summary': 'see notes.md (written by the sub-agent that made the change)',
    'needs': needs,
    'demo_cmd': f'cd <worktree> && /venv/bin/python SEEDED/demo.py',
    'verified_by_me': {
        'worktree': f'{wt} (git worktree of /repo HEAD, removed afterwards)',
        'patch_applies_to_clean_tree': True, 'demo_with_patch': 'exit 1', 'demo_without_patch': 'exit 0 (git apply -R)',
        'existing_tests': 'tests/common + tests/test_profiling.py: 56 passed, 16 skipped, 2 pre-existing collection errors, with and without the change',
        'ran': f'tools/eval_seeded.sh {wt} {prop}  (the registered quick tier with VERIF_REPO pointing at the changed tree; /repo untouched)',
        'detection': detection, 'detail': detail}}
json.dump(m, open(os.path.join(dst, 'meta.json'), 'w'), indent=1)
print(dst)
