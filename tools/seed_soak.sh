#!/bin/bash
# usage: tools/seed_soak.sh <first> <last> [ids...]   -- runs the quick tier under many VERIF_SEED values;
# any non-zero exit or VIOLATION line on the unchanged tree is a false alarm (or a new finding) to triage.
first=$1; last=$2; shift 2
ids=${@:-C09 C15 C16 C17}
for s in $(seq $first $last); do
  for id in $ids; do
    out=$(VERIF_SEED=$s VERIF_NO_MUTANTS=1 /venv/bin/python check $id --tier quick 2>&1)
    rc=$?
    echo "seed=$s id=$id exit=$rc $(echo "$out" | grep -c '^VIOLATION') violations; $(echo "$out" | grep -c '^HARNESS') harness; $(echo "$out" | tail -1 | cut -c1-120)"
    if [ $rc -ne 0 ]; then echo "$out" | grep -v '^WARNING' | head -20; fi
  done
done
