#!/bin/bash
# usage: tools/run_seeded.sh [ids...]
# For every seeded change: apply it to /repo, run the registered quick command of its property, undo it.
# Expected: exit 1 with a VIOLATION line for every change whose meta.json says "caught*"; exit 0 for c09c.
# /repo must be clean before, and is left clean afterwards.
cd "$(dirname "$0")/.."
REPO=${VERIF_REPO:-/repo}
if [ -n "$(git -C $REPO status --porcelain --untracked-files=no)" ]; then echo "$REPO is not clean"; exit 2; fi
ids=${@:-$(ls seeded)}
for id in $ids; do
  [ -d seeded/$id ] || continue
  prop=$(/venv/bin/python -c "
import json,re
m=json.load(open('seeded/$id/meta.json'))
p=m.get('property') or {'b09':'C09','b15':'C15','b17':'C17'}.get('$id'.split('-')[-1][:3],'')
print(re.match(r'C[0-9][0-9]', p).group(0))")
  git -C $REPO apply "$PWD/seeded/$id/patch.diff" || { echo "$id: patch does not apply"; continue; }
  out=$(VERIF_NO_MUTANTS=1 /venv/bin/python check $prop --tier ${VERIF_TIER:-quick} 2>&1); rc=$?
  git -C $REPO checkout -- .
  nviol=$(echo "$out" | grep -c '^VIOLATION')
  if [ $rc -eq 2 ]; then echo "$id ($prop): HARNESS: $(echo "$out" | grep -m2 'HARNESS' | cut -c1-400 | tr '\n' '|')"; fi
  echo "$id ($prop): exit=$rc violations=$nviol $(echo "$out" | grep -A1 '^VIOLATION' | grep 'kind=' | head -2 | tr -s ' ' | cut -c1-150 | tr '\n' '|')"
done
git -C $REPO status --porcelain --untracked-files=no | head -3
# the evidence files were rewritten by runs against patched trees: put the committed ones back
git checkout -- evidence/ 2>/dev/null
