"""Island loader: loads the *working-tree source* of the modules under test
into fresh module objects, optionally applying textual patches in memory
(sensitivity mutants), with the nondeterminism seams replaced."""
from __future__ import annotations

import logging
import os
import sys
import types

REPO = os.environ.get('VERIF_REPO', '/repo')


class MutantUnavailable(Exception):
    """The text a mutant wants to replace is not in the current source."""


def read_source(relpath):
    with open(os.path.join(REPO, relpath), encoding='utf-8') as f:
        return f.read()


def apply_patches(src, patches, relpath):
    """patches: list of (relpath, old, new[, count])."""
    for p in patches or ():
        if p[0] != relpath:
            continue
        old, new = p[1], p[2]
        count = p[3] if len(p) > 3 else 1
        if old not in src:
            raise MutantUnavailable(f'{relpath}: text to patch not found: {old[:60]!r}')
        src = src.replace(old, new, count if count else -1)
    return src


def exec_module(name, relpath, *, package=None, patches=None, pre=None):
    src = apply_patches(read_source(relpath), patches, relpath)
    code = compile(src, os.path.join(REPO, relpath), 'exec', dont_inherit=True)
    mod = types.ModuleType(name)
    mod.__file__ = os.path.join(REPO, relpath)
    mod.__package__ = package if package is not None else name.rpartition('.')[0]
    sys.modules[name] = mod
    if pre:
        pre(mod)
    exec(code, mod.__dict__)
    return mod


class TimeProxy:
    """Stands in for the ``time`` module inside a loaded module."""

    def __init__(self):
        self.now = lambda: 0.0

    def monotonic(self):
        return self.now()

    def time(self):
        return self.now()

    def monotonic_ns(self):
        return int(self.now() * 1e9)

    def perf_counter(self):
        return self.now()

    def time_ns(self):
        return int(self.now() * 1e9)

    def perf_counter_ns(self):
        return int(self.now() * 1e9)

    def sleep(self, s):
        raise RuntimeError('real sleep inside the simulation')

    def __getattr__(self, name):
        # the rest of the module (formatting, struct_time, ...) untouched; every clock is above
        import time as _time
        if name in ('process_time', 'process_time_ns', 'thread_time', 'thread_time_ns', 'clock_gettime',
                    'clock_gettime_ns'):
            raise RuntimeError(f'time.{name}: a real clock inside the simulation')
        return getattr(_time, name)


class NullLogger:
    def __getattr__(self, name):
        return self._noop

    @staticmethod
    def _noop(*a, **k):
        return None

    def isEnabledFor(self, level):
        return False


def quiet_logging():
    logging.disable(logging.CRITICAL)


_connpool_counter = 0


def load_connpool(patches=None):
    """Load connpool/{config,rolavg,pool}.py under a private package name
    (the real package __init__ would import the Rust pool)."""
    global _connpool_counter
    _connpool_counter += 1
    pkgname = f'_sim_connpool_{_connpool_counter}'
    pkg = types.ModuleType(pkgname)
    pkg.__path__ = [os.path.join(REPO, 'edb/server/connpool')]
    sys.modules[pkgname] = pkg
    mods = {}
    for n in ('config', 'rolavg', 'pool'):
        rel = f'edb/server/connpool/{n}.py'
        m = exec_module(f'{pkgname}.{n}', rel, package=pkgname, patches=patches)
        setattr(pkg, n, m)
        mods[n] = m
    mods['config'].logger = NullLogger()
    mods['pool'].logger = NullLogger()
    tp = TimeProxy()
    mods['pool'].time = tp
    mods['time'] = tp
    return mods
