from __future__ import annotations

import argparse
import json
import os
import sys
import time

from sim import island


def get_spec(pid):
    island.quiet_logging()
    import warnings
    warnings.simplefilter('ignore')
    if pid in ('C15', 'C16'):
        from worlds import connpool_spec
        return connpool_spec.SPECS[pid]
    if pid == 'C17':
        from worlds import cpool_spec
        return cpool_spec.SPEC
    if pid == 'C09':
        from worlds import txstate_spec
        return txstate_spec.SPEC
    raise SystemExit(f'unknown or unclaimed property {pid}')


def setup():
    """Build step: byte-compile the framework in memory and import-check the
    islands against the current /repo."""
    import compileall  # noqa
    here = os.path.dirname(os.path.dirname(os.path.abspath(__file__)))
    ok = True
    for d in ('sim', 'worlds'):
        for fn in sorted(os.listdir(os.path.join(here, d))):
            if fn.endswith('.py'):
                p = os.path.join(here, d, fn)
                try:
                    compile(open(p).read(), p, 'exec')
                except SyntaxError as e:
                    print('syntax error', p, e)
                    ok = False
    import subprocess
    m = json.load(open(os.path.join(here, 'MANIFEST.json')))
    for c in m['checks']:
        pid = c['property_id']
        p = subprocess.run([sys.executable, os.path.join(here, 'check'), pid, '--selfcheck'],
                           capture_output=True, text=True, timeout=300, cwd=here)
        print(pid, 'island import:', 'ok' if p.returncode == 0 else 'FAILED')
        if p.returncode != 0:
            print(p.stdout[-2000:], p.stderr[-2000:])
            ok = False
    return 0 if ok else 2


def main(argv):
    if argv and argv[0] == '--setup':
        return setup()
    ap = argparse.ArgumentParser()
    ap.add_argument('pid')
    ap.add_argument('--tier', default=os.environ.get('VERIF_TIER') or 'quick')
    ap.add_argument('--replay')
    ap.add_argument('--machine', action='store_true')
    ap.add_argument('--digests')
    ap.add_argument('--selfcheck', action='store_true')
    ap.add_argument('--hunt', type=int)
    ap.add_argument('--stratum')
    ap.add_argument('--mutant')
    ap.add_argument('--trace', action='store_true')
    ap.add_argument('--exemplars')
    a = ap.parse_args(argv)
    if os.environ.get('VERIF_TIER') in ('quick', 'thorough'):
        a.tier = os.environ['VERIF_TIER']
    seed = int(os.environ.get('VERIF_SEED', '20260923') or 20260923)

    from sim import runner
    from sim.tape import Tape, derive_seed
    spec = get_spec(a.pid)

    if a.selfcheck:
        res, used = runner.run_seed(spec, 1, runner.stratum_for(spec, 'quick', 0))
        print('ok', res['steps'])
        return 0

    if a.digests:
        tier, base, lo, hi = a.digests.split(':')
        runner._SPEC = spec
        print(json.dumps(runner.digest_lines(spec, tier, int(base), range(int(lo), int(hi)))))
        return 0

    if a.replay:
        mutants = {m['name']: m for m in spec.mutants}
        ok, res, doc = runner.replay_file(spec, a.replay, mutants_by_name=mutants)
        if a.machine:
            print('REPLAY ' + json.dumps({
                'reproduced': ok, 'digest': res['digest'],
                'violations': [[v['property'], v['kind'], v['signature']] for v in res['violations']]}))
            return 1 if ok else 0
        print(f'replay of {a.replay}: stratum={doc["stratum"]} tape_len={len(doc["tape"])}')
        print('config:', res.get('config'))
        if a.trace:
            for e in res.get('trace') or ():
                print('  ', e)
        for v in res['violations']:
            print(f'  {v["property"]} {v["kind"]} {v["signature"]} at step {v["step"]} vtime {v["vtime"]}')
            print(f'    {v["detail"]}')
        if ok:
            print(f'VIOLATION property={doc["expected"]["property"]} replay={a.replay}')
            return 1
        print('not reproduced: the expected violation did not occur')
        return 0

    if a.hunt:
        import collections
        mutant = None
        if a.mutant and os.path.exists(a.mutant):
            # development: a python file defining PATCHES = [(relpath, old, new), ...]
            ns = {}
            exec(open(a.mutant).read(), ns)
            mutant = {'name': 'file:' + a.mutant, 'patches': ns['PATCHES']}
        elif a.mutant:
            mutant = {m['name']: m for m in spec.mutants}[a.mutant]
        ex = runner.make_pool(spec)
        t0 = time.time()
        tot = runner.batch(ex, spec, a.tier, seed, a.hunt, only_stratum=a.stratum, mutant=mutant,
                           max_viol=2)
        runner.close_pool(ex)
        print(f'runs {tot["n"]} wall {time.time() - t0:.1f}s distinct {len(tot["digests"])} '
              f'nontrivial {tot["nontrivial"]} simtime {tot["sim_time"]:.0f} steps {tot["steps"]}')
        print('strata', dict(tot['strata']))
        print('faults', dict(tot['faults']))
        print('probes', dict(sorted(tot['probes'].items())))
        print('internal', dict(tot['internal_errors'].most_common(5)))
        for k, c in tot['viol_counts'].most_common():
            print('VIOL', c, k)
        for v in tot['violations'][:12]:
            print('  run', v[0], 'seed', v[1], v[2], 'tape', len(v[3]), v[4]['kind'], v[4]['signature'])
            print('     ', v[4]['detail'][:400])
        for he in tot['harness_errors'][:5]:
            print('HARNESS', he)
        if a.exemplars:
            seen = set()
            for (i, sd, stratum, used, v) in tot['violations']:
                k = runner.vkey(v)
                if k in seen:
                    continue
                seen.add(k)
                mini, natt = runner.minimise(spec, used, stratum, v, mutant=mutant, max_attempts=600)
                res, _ = runner.run_values(spec, mini, stratum, mutant=mutant, record=True, labels=True)
                v2 = next(x for x in res['violations'] if runner.vkey(x) == k)
                path = os.path.join(a.exemplars, f'{a.pid}-{v["kind"]}-{runner.hash_str(v["signature"] + stratum) % 10**8:08d}.json')
                runner.write_replay(spec, path, mini, stratum, v2, seed=sd, index=i, res=res,
                                    shrink_attempts=natt, original_len=len(used), mutant=mutant)
                print('exemplar', path, k, 'tape', len(mini))
        return 0

    if a.tier not in ('quick', 'thorough'):
        raise SystemExit('tier must be quick or thorough')
    try:
        return runner.run_check(spec, a.tier, seed)
    except KeyboardInterrupt:
        raise
    except BaseException as e:      # noqa: B036
        # the machinery itself failed (e.g. a seam the changed code no longer fits): never a
        # verdict - no VIOLATION line, exit status 2
        import traceback
        last = traceback.format_exception_only(type(e), e)[-1].strip()
        print(f'HARNESS-ERROR: {a.pid} {a.tier}: the check could not be run to completion: {last[:600]}')
        try:
            runner.close_all_pools()
        except Exception:
            pass
        return 2
