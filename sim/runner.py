"""Batch runner: seeded search, verdict classification, shrinking, replay
files, fresh-interpreter reproduction, known findings, self-tests, evidence."""
from __future__ import annotations

import collections
import concurrent.futures as cf
import faulthandler
import json
import multiprocessing
import os
import subprocess
import sys
import time
import traceback

from sim.tape import Tape, derive_seed, shrink
from sim.loop import HarnessError
from sim.island import MutantUnavailable

VERIF = os.path.dirname(os.path.dirname(os.path.abspath(__file__)))
PY = sys.executable
NPROC = int(os.environ.get('VERIF_PROCS', '0')) or min(16, os.cpu_count() or 1)


class Spec:
    """What a property check needs to know about its world."""
    property_id = ''
    world = ''                    # name, for replay files
    strata = {}                   # tier -> [(stratum, weight)]
    runs = {}                     # tier -> number of runs
    mutants = []                  # [{'name', 'patches', 'strata'?, 'budget'?}]
    quick_mutants = []            # names run in the quick tier
    components = {}
    rule = ''
    assumptions = []
    known_extended_strata = ()    # strata whose findings are reported apart

    def run_world(self, tape, stratum, mutant=None, record=False, **kw):
        raise NotImplementedError

    def relevant(self, violation):
        return violation['property'] == self.property_id

    def render_sample(self, result, tape):
        return {'config': result.get('config'), 'events': (result.get('trace') or [])[:80]}


def stratum_for(spec, tier, index):
    table = spec.strata[tier]
    total = sum(w for _, w in table)
    r = index % total
    acc = 0
    for name, w in table:
        acc += w
        if r < acc:
            return name
    return table[-1][0]


# --------------------------------------------------------------------------
# single runs
# --------------------------------------------------------------------------

class RunTimeout(KeyboardInterrupt):
    """KeyboardInterrupt subclass: asyncio's Handle._run and Task.__step swallow
    every other BaseException into the loop's exception handler."""


def _on_alarm(signum, frame):
    raise RunTimeout()


RUN_WALL_CAP = float(os.environ.get('VERIF_RUN_WALL_CAP', '30'))


def run_seed(spec, seed, stratum, *, mutant=None, record=False):
    tape = Tape(seed=seed)
    res = guarded(spec, tape, stratum, mutant, record)
    return res, tape.used()


def guarded(spec, tape, stratum, mutant, record):
    """Run one world under a wall-clock alarm: a run that does not finish is
    a harness error carrying the place where it was spinning, never a pass."""
    import signal
    old = signal.signal(signal.SIGALRM, _on_alarm)
    # (repeating: the teardown of a run whose callback never returns must not hang either)
    signal.setitimer(signal.ITIMER_REAL, RUN_WALL_CAP, 10.0)
    try:
        return spec.run_world(tape, stratum, mutant=mutant, record=record)
    except RunTimeout as e:
        frames = traceback.format_tb(e.__traceback__)
        tb = ''.join(frames[-6:])
        hook = getattr(spec, 'on_wall_timeout', None)
        if hook is not None:
            res = hook(frames)
            if res is not None:
                return res
        raise HarnessError(f'run exceeded {RUN_WALL_CAP}s of wall time; spinning at:\n{tb}') from None
    finally:
        signal.setitimer(signal.ITIMER_REAL, 0)
        signal.signal(signal.SIGALRM, old)


def run_values(spec, values, stratum, *, mutant=None, record=False, labels=False):
    tape = Tape(values=values, record_labels=labels)
    res = guarded(spec, tape, stratum, mutant, record)
    res['_labels'] = tape.labels
    return res, tape.used()


def vkey(v):
    return (v['property'], v['kind'], v['signature'])


# --------------------------------------------------------------------------
# worker side of a batch
# --------------------------------------------------------------------------

_SPEC = None


def _chunk(args):
    (tier, base_seed, lo, hi, mutant, only_stratum, max_viol) = args
    spec = _SPEC
    faulthandler.dump_traceback_later(max(600, (hi - lo) * 5), exit=True)
    out = {
        'n': 0, 'digests': set(), 'nontrivial': 0, 'faults': collections.Counter(),
        'probes': collections.Counter(), 'sim_time': 0.0, 'steps': 0,
        'strata': collections.Counter(), 'violations': [], 'all_digests': 0,
        'harness_errors': [], 'served': 0, 'internal_errors': collections.Counter(),
        'viol_counts': collections.Counter(), 'max_bound': 0.0,
        'observations': collections.Counter(),
    }
    try:
        for i in range(lo, hi):
            stratum = only_stratum or stratum_for(spec, tier, i)
            seed = derive_seed(base_seed, i)
            try:
                res, used = run_seed(spec, seed, stratum, mutant=mutant)
            except HarnessError as e:
                out['harness_errors'].append((i, seed, stratum, repr(e)))
                continue
            except MutantUnavailable:
                raise
            except Exception as e:
                out['harness_errors'].append((i, seed, stratum, ''.join(traceback.format_exception(e))[-1500:]))
                continue
            out['n'] += 1
            out['strata'][stratum] += 1
            if res['nontrivial']:
                out['nontrivial'] += 1
                out['digests'].add(res['digest'])
            out['faults'].update(res['faults'])
            out['probes'].update(res['probes'])
            out['sim_time'] += res['sim_time']
            out['steps'] += res['steps']
            out['served'] += res.get('served', 0)
            out['max_bound'] = max(out['max_bound'], res.get('bound', 0.0) or 0.0)
            for ie in res.get('internal_errors') or ():
                out['internal_errors'][ie[:160]] += 1
            for v in res['violations']:
                if not spec.relevant(v):
                    out['probes']['other_property_violation:' + v['property']] += 1
                    continue
                if stratum in getattr(spec, 'observe_only_strata', ()):
                    out['observations'][f'{stratum}:{v["kind"]}:{v["signature"]}'] += 1
                    break
                out['viol_counts'][vkey(v)] += 1
                if sum(1 for x in out['violations'] if vkey(x[4]) == vkey(v)) < max_viol:
                    out['violations'].append((i, seed, stratum, used, v))
                break   # first relevant violation of the run decides
            if mutant is not None and any(not _listed(spec, x) for x in out['violations']):
                break       # (a listed finding does not count as having caught the mutant)
    finally:
        faulthandler.cancel_dump_traceback_later()
    return out


def _merge(total, part):
    for k, v in part.items():
        if isinstance(v, collections.Counter):
            total[k].update(v)
        elif isinstance(v, set):
            total[k] |= v
        elif isinstance(v, list):
            total[k].extend(v)
        elif k == 'max_bound':
            total[k] = max(total[k], v)
        else:
            total[k] += v


def new_total():
    return {
        'n': 0, 'digests': set(), 'nontrivial': 0, 'faults': collections.Counter(),
        'probes': collections.Counter(), 'sim_time': 0.0, 'steps': 0,
        'strata': collections.Counter(), 'violations': [], 'all_digests': 0,
        'harness_errors': [], 'served': 0, 'internal_errors': collections.Counter(),
        'viol_counts': collections.Counter(), 'max_bound': 0.0,
        'observations': collections.Counter(),
    }


def make_pool(spec):
    global _SPEC
    _SPEC = spec
    ctx = multiprocessing.get_context('fork')
    ex = cf.ProcessPoolExecutor(max_workers=NPROC, mp_context=ctx)
    _ALL_POOLS.append(ex)
    return ex


_ALL_POOLS = []


def close_all_pools():
    for ex in list(_ALL_POOLS):
        close_pool(ex)


def close_pool(ex):
    """Shut an executor down for good.  shutdown(wait=False) alone can leave
    idle workers blocked on the call-queue lock and the manager thread polling
    for ever (seen with CPython 3.12.1 when futures failed), which then hangs
    the interpreter at exit: terminate the workers explicitly."""
    procs = list((getattr(ex, '_processes', None) or {}).values())
    if ex in _ALL_POOLS:
        _ALL_POOLS.remove(ex)
    try:
        ex.shutdown(wait=False, cancel_futures=True)
    except Exception:
        pass
    for p in procs:
        try:
            p.terminate()
        except Exception:
            pass
    for p in procs:
        try:
            p.join(timeout=5)
        except Exception:
            pass


def batch(ex, spec, tier, base_seed, n, *, mutant=None, only_stratum=None,
          chunk=None, max_viol=3, wall_cap=None, stop_on_first=False):
    chunk = chunk or max(1, min(500, n // (NPROC * 6) or 1))
    jobs = []
    for lo in range(0, n, chunk):
        jobs.append((tier, base_seed, lo, min(n, lo + chunk), mutant, only_stratum, max_viol))
    total = new_total()
    t0 = time.time()
    futs = [ex.submit(_chunk, j) for j in jobs]
    try:
        for f in cf.as_completed(futs, timeout=wall_cap):
            part = f.result()
            _merge(total, part)
            if stop_on_first and any(not _listed(spec, x) for x in total['violations']):
                for g in futs:
                    g.cancel()
                break
    except cf.TimeoutError:
        for g in futs:
            g.cancel()
        total['harness_errors'].append((-1, 0, '', f'wall cap {wall_cap}s exceeded'))
    total['wall'] = time.time() - t0
    return total


# --------------------------------------------------------------------------
# replay files
# --------------------------------------------------------------------------

def repo_head():
    try:
        from sim.island import REPO
        return subprocess.run(['git', '-C', REPO, 'rev-parse', 'HEAD'], capture_output=True,
                              text=True, timeout=20).stdout.strip()
    except Exception:
        return 'unknown'


def write_replay(spec, path, values, stratum, violation, *, seed=None, index=None,
                 mutant=None, res=None, shrink_attempts=None, original_len=None):
    doc = {
        'property': spec.property_id,
        'world': spec.world,
        'stratum': stratum,
        'tape': list(values),
        'expected': {k: violation[k] for k in ('property', 'kind', 'signature')},
        'detail': violation.get('detail'),
        'seed': seed, 'run_index': index,
        'mutant': mutant['name'] if mutant else None,
        'repo_head': repo_head(),
        'python': sys.version.split()[0],
        'shrink': {'attempts': shrink_attempts, 'original_tape_len': original_len,
                   'minimised_tape_len': len(values)},
    }
    if res is not None:
        doc['config'] = res.get('config')
        doc['labels'] = res.get('_labels')
        doc['event_log'] = res.get('trace')
    os.makedirs(os.path.dirname(path), exist_ok=True)
    with open(path, 'w') as f:
        json.dump(doc, f, indent=1, default=str)
    return doc


def replay_file(spec, path, *, mutants_by_name=None):
    """Re-run a replay file in this process. Returns (reproduced, result)."""
    doc = json.load(open(path))
    mutant = None
    if doc.get('mutant'):
        mutant = (mutants_by_name or {}).get(doc['mutant'])
        if mutant is None:
            raise HarnessError(f'unknown mutant {doc["mutant"]}')
    res, used = run_values(spec, doc['tape'], doc['stratum'], mutant=mutant, record=True, labels=True)
    exp = doc['expected']
    hit = [v for v in res['violations']
           if (v['property'], v['kind'], v['signature']) == (exp['property'], exp['kind'], exp['signature'])]
    return bool(hit), res, doc


def fresh_replay(spec, path, hashseed='4242'):
    """Replay in a fresh interpreter under another PYTHONHASHSEED."""
    env = dict(os.environ)
    env['PYTHONHASHSEED'] = hashseed
    p = subprocess.run([PY, os.path.join(VERIF, 'check'), spec.property_id, '--replay', path, '--machine'],
                       capture_output=True, text=True, timeout=600, env=env, cwd=VERIF)
    for line in p.stdout.splitlines():
        if line.startswith('REPLAY '):
            return json.loads(line[7:])
    raise HarnessError(f'fresh replay produced no verdict: rc={p.returncode} out={p.stdout[-500:]} err={p.stderr[-1500:]}')


def minimise(spec, values, stratum, violation, *, mutant=None, max_attempts=400):
    key = vkey(violation)
    counter = [0]

    def still_fails(cand):
        counter[0] += 1
        try:
            res, used = run_values(spec, cand, stratum, mutant=mutant)
        except Exception:
            return False, None
        for v in res['violations']:
            if spec.relevant(v):
                return (vkey(v) == key), used
        return False, None

    if max_attempts <= 0:
        return list(values), 0
    best, n1 = shrink(values, still_fails, max_attempts=max_attempts)
    # structure-aware pass: drop whole generated elements (a client, a message,
    # a request) together with the count that announces them
    groups = getattr(spec, 'shrink_groups', ())
    budget = max_attempts
    changed = True
    while groups and changed and budget > 0:
        changed = False
        try:
            res, used = run_values(spec, best, stratum, mutant=mutant, labels=True)
        except Exception:
            break
        labels = [l[0] for l in (res.get('_labels') or [])][:len(best)]
        for count_label, start_label, stop_labels in groups:
            if count_label not in labels:
                continue
            ci = labels.index(count_label)
            starts = [i for i, l in enumerate(labels) if l == start_label and i > ci]
            if not starts or best[ci] == 0:
                continue
            for si in reversed(starts):
                # the group runs until the next start / a stop label / the end
                ei = si + 1
                while ei < len(labels) and labels[ei] != start_label and labels[ei] not in stop_labels:
                    ei += 1
                cand = best[:ci] + [best[ci] - 1] + best[ci + 1:si] + best[ei:]
                budget -= 1
                ok, used2 = still_fails(cand)
                if ok:
                    best = list(used2) if used2 is not None and len(used2) <= len(cand) else cand
                    while best and best[-1] == 0:
                        best.pop()
                    changed = True
                    break
                if budget <= 0:
                    break
            if changed or budget <= 0:
                break
    if groups:
        best, n2 = shrink(best, still_fails, max_attempts=max(50, max_attempts // 3))
    return best, counter[0]


def _run_values_job(args):
    (values, stratum, mutant, record, labels) = args
    res, used = run_values(_SPEC, values, stratum, mutant=mutant, record=record, labels=labels)
    return res, used


def _run_seed_job(args):
    (seed, stratum, record) = args
    return run_seed(_SPEC, seed, stratum, record=record)


def in_worker(ex, fn, *args):
    """The main process never runs a world itself: a process hosts at most
    one island (and one mutant of it)."""
    return ex.submit(fn, args).result(timeout=1800)


def _minimise_job(args):
    (values, stratum, violation, max_attempts) = args[:4]
    mutant = args[4] if len(args) > 4 else None
    faulthandler.dump_traceback_later(900, exit=True)
    try:
        return minimise(_SPEC, values, stratum, violation, mutant=mutant, max_attempts=max_attempts)
    finally:
        faulthandler.cancel_dump_traceback_later()


# --------------------------------------------------------------------------
# known findings
# --------------------------------------------------------------------------

_KNOWN_CACHE = {}


def _listed(spec, viol_entry):
    """Is this (i, seed, stratum, tape, violation) entry one of the listed (known) findings?"""
    pid = spec.property_id
    if pid not in _KNOWN_CACHE:
        _KNOWN_CACHE[pid] = load_known(pid)[0]
    return match_known(_KNOWN_CACHE[pid], viol_entry[4], viol_entry[2]) is not None


def load_known(property_id):
    path = os.path.join(VERIF, 'known_findings.json')
    if not os.path.exists(path):
        return [], []
    doc = json.load(open(path))
    known = [f for f in doc.get('known', []) if f['property'] == property_id]
    fixed = [f for f in doc.get('fixed', []) if f['property'] == property_id]
    return known, fixed


def match_known(known, violation, stratum):
    for f in known:
        if 'kinds' in f:
            if violation['kind'] not in f['kinds']:
                continue
        elif f['kind'] != violation['kind']:
            continue
        if f.get('strata') and stratum not in f['strata']:
            continue
        sig = violation['signature']
        if 'signature' in f and f['signature'] == sig:
            return f
        if 'signature_prefix' in f and sig.startswith(f['signature_prefix']):
            return f
        if 'signature_suffix' in f and sig.endswith(f['signature_suffix']):
            return f
        if 'signature_contains' in f and f['signature_contains'] in sig:
            return f
    return None


# --------------------------------------------------------------------------
# determinism self-test
# --------------------------------------------------------------------------

def digest_lines(spec, tier, base_seed, indices):
    out = []
    for i in indices:
        stratum = stratum_for(spec, tier, i)
        res, used = run_seed(spec, derive_seed(base_seed, i), stratum)
        vs = sorted(vkey(v) for v in res['violations'])
        out.append([i, res['digest'], res['steps'], round(res['sim_time'], 6), len(used), vs])
    return out


def _digest_job(args):
    tier, base_seed, indices = args
    return digest_lines(_SPEC, tier, base_seed, indices)


def determinism_check(ex, spec, tier, base_seed, n_inproc, n_fresh):
    idx = list(range(n_inproc))
    step = max(1, len(idx) // (NPROC * 2))
    parts = [idx[i:i + step] for i in range(0, len(idx), step)]
    a = [x for p in ex.map(_digest_job, [(tier, base_seed, p) for p in parts]) for x in p]
    # second execution in different processes with a different partition
    step2 = max(1, step // 2 + 1)
    parts2 = [idx[i:i + step2] for i in range(0, len(idx), step2)]
    b = [x for p in ex.map(_digest_job, [(tier, base_seed, p) for p in parts2]) for x in p]
    a = json.loads(json.dumps(a))
    b = json.loads(json.dumps(b))
    mism = [(x, y) for x, y in zip(a, b) if x != y]
    fresh_mism = []
    fresh_n = 0
    if n_fresh:
        for hs in ('0', '31337'):
            env = dict(os.environ)
            env['PYTHONHASHSEED'] = hs
            p = subprocess.run(
                [PY, os.path.join(VERIF, 'check'), spec.property_id, '--digests',
                 f'{tier}:{base_seed}:0:{n_fresh}'],
                capture_output=True, text=True, timeout=900, env=env, cwd=VERIF)
            if p.returncode != 0:
                raise HarnessError(f'fresh digest run failed: {p.stderr[-1500:]}')
            c = json.loads(p.stdout.strip().splitlines()[-1])
            fresh_n += len(c)
            fresh_mism += [(x, y) for x, y in zip(a[:n_fresh], c) if x != y]
    return {
        'seeds_rechecked': len(a), 'in_process_mismatches': len(mism),
        'fresh_interpreter_rechecks': fresh_n, 'fresh_mismatches': len(fresh_mism),
        'hash_seeds': ['0', '31337'] if n_fresh else [],
        'first_mismatch': (mism or fresh_mism or [None])[0],
    }


# --------------------------------------------------------------------------
# the check
# --------------------------------------------------------------------------

def run_check(spec, tier, base_seed, *, out=print):
    t0 = time.time()
    pid = spec.property_id
    known, fixed = load_known(pid)
    n = int(os.environ.get('VERIF_RUNS', '0')) or spec.runs[tier]
    exit_code = 0
    harness_msgs = []
    lines = []

    ex = make_pool(spec)
    try:
        # 1. determinism
        nd, nf = (48, 16) if tier == 'quick' else (400, 100)
        det = determinism_check(ex, spec, tier, base_seed, nd, nf)
        if det['in_process_mismatches'] or det['fresh_mismatches']:
            harness_msgs.append(f'nondeterminism detected: {det["first_mismatch"]}')

        # 2. the search
        total = batch(ex, spec, tier, base_seed, n, wall_cap=spec.wall_cap.get(tier))
        for he in total['harness_errors'][:5]:
            harness_msgs.append(f'harness error in run {he[0]} (seed {he[1]}, {he[2]}): {he[3]}')

        # 3. violations: minimise, replay, classify
        groups = collections.OrderedDict()
        for (i, seed, stratum, used, v) in sorted(total['violations'], key=lambda x: x[0]):
            groups.setdefault((vkey(v), stratum in spec.known_extended_strata and stratum or ''), []).append((i, seed, stratum, used, v))
        reports = []
        jobs = []
        known_counts = collections.Counter()     # listed finding id -> runs that hit it (all signature classes)
        for key, items in groups.items():
            i, seed, stratum, used, v = items[0]
            kf = match_known(known, v, stratum)
            if kf is not None:
                # a listed finding shows under many signature classes (one per oracle it trips):
                # one minimised replay per listed finding is enough, the rest is only counted
                known_counts[kf['id']] += total['viol_counts'][vkey(v)]
                if known_counts[kf['id']] != total['viol_counts'][vkey(v)]:
                    continue
            jobs.append((key, items[0], kf))
        attempts = 250 if tier == 'quick' else 600
        futs = {ex.submit(_minimise_job, (it[3], it[2], it[4], 0 if it[4].get('no_shrink') else attempts)): (key, it, kf)
                for key, it, kf in jobs}
        new_violation_keys = []
        known_hit = collections.OrderedDict()
        for f in cf.as_completed(futs):
            key, (i, seed, stratum, used, v), kf = futs[f]
            try:
                mini, natt = f.result()
            except Exception as e:
                harness_msgs.append(f'shrinker failed for {key}: {e!r}')
                continue
            res, used2 = in_worker(ex, _run_values_job, mini, stratum, None, True, True)
            v2 = next((x for x in res['violations'] if vkey(x) == vkey(v)), None)
            if v2 is None:
                harness_msgs.append(f'minimised tape for {key} does not reproduce in process')
                continue
            name = f'{pid}-{v["kind"]}-{abs(hash_str(v["signature"] + stratum)) % 10**8:08d}.json'
            path = os.path.join(VERIF, 'replays', name)
            write_replay(spec, path, mini, stratum, v2, seed=seed, index=i, res=res,
                         shrink_attempts=natt, original_len=len(used))
            fr = fresh_replay(spec, path)
            if not fr.get('reproduced'):
                harness_msgs.append(f'violation {key} did not reproduce in a fresh interpreter: {fr}')
                continue
            if kf is not None:
                known_hit[kf['id']] = (kf, path, known_counts[kf['id']])
            else:
                new_violation_keys.append((key, path, v2, stratum, total['viol_counts'][vkey(v)]))

        # 3b. exemplars of listed findings are re-run every time
        for kf in known:
            if kf['id'] in known_hit or not kf.get('exemplar'):
                continue
            p = os.path.join(VERIF, kf['exemplar'])
            try:
                doc = json.load(open(p))
                res, _ = in_worker(ex, _run_values_job, doc['tape'], doc['stratum'], None, False, False)
                exp = doc['expected']
                ok = any(vkey(v) == (exp['property'], exp['kind'], exp['signature']) for v in res['violations'])
            except Exception as e:
                harness_msgs.append(f'exemplar {p} failed to run: {e!r}')
                continue
            if ok:
                known_hit[kf['id']] = (kf, p, 0)

        # 3c. exemplars of *fixed* findings: must not reproduce on the tree
        # (else the defect is back: VIOLATION), must reproduce with the fix
        # reverted in memory (else the exemplar is stale: noted in evidence)
        import glob
        fixed_stats = {'exemplars': 0, 'clean_on_tree': 0, 'reproduce_with_revert': 0,
                       'stale': [], 'revert_unavailable': []}
        mutants_by_name = {m['name']: m for m in spec.mutants}
        revert_jobs = collections.OrderedDict()   # mutant name -> [(path, doc, key)]
        for fx in fixed:
            for path in sorted(glob.glob(os.path.join(VERIF, fx.get('exemplar_dir', ''), '*.json'))):
                doc = json.load(open(path))
                exp = doc['expected']
                if exp['property'] != pid:
                    continue
                fixed_stats['exemplars'] += 1
                key = (exp['property'], exp['kind'], exp['signature'])
                res, used = in_worker(ex, _run_values_job, doc['tape'], doc['stratum'], None, True, True)
                back = [v for v in res['violations'] if spec.relevant(v)]
                if back:
                    v2 = back[0]
                    name = f'{pid}-regressed-{fx["id"]}-{os.path.basename(path)}'
                    rp = os.path.join(VERIF, 'replays', name)
                    write_replay(spec, rp, doc['tape'], doc['stratum'], v2, res=res)
                    fr = fresh_replay(spec, rp)
                    if fr.get('reproduced'):
                        new_violation_keys.append((vkey(v2), rp, v2, doc['stratum'], 1))
                    else:
                        harness_msgs.append(f'fixed exemplar {path} fails in process but not in a fresh interpreter')
                    continue
                fixed_stats['clean_on_tree'] += 1
                mname = doc.get('mutant') or fx.get('revert_mutant')
                if mname in mutants_by_name:
                    revert_jobs.setdefault(mname, []).append((path, doc, key))
        for mname, items in revert_jobs.items():
            m = mutants_by_name[mname]
            exm = make_pool(spec) if getattr(spec, 'isolated_mutants', False) else ex
            try:
                for path, doc, key in items:
                    try:
                        resm, _ = in_worker(exm, _run_values_job, doc['tape'], doc['stratum'], m, False, False)
                        if any(vkey(v) == key for v in resm['violations']):
                            fixed_stats['reproduce_with_revert'] += 1
                        else:
                            fixed_stats['stale'].append(os.path.relpath(path, VERIF))
                    except MutantUnavailable:
                        fixed_stats['revert_unavailable'].append(mname)
                        break
                    except Exception as e:
                        if 'MutantUnavailable' in repr(e):
                            fixed_stats['revert_unavailable'].append(mname)
                            break
                        raise
            finally:
                if exm is not ex:
                    close_pool(exm)

        for kid, (kf, path, cnt) in known_hit.items():
            lines.append(f'KNOWN-FINDING: property={pid} {kf["what"]} [id={kid} replay={os.path.relpath(path, VERIF)} runs={cnt}]')
        for key, path, v2, stratum, cnt in new_violation_keys:
            lines.append(f'VIOLATION property={pid} replay={path}')
            lines.append(f'  kind={v2["kind"]} signature={v2["signature"]} stratum={stratum} runs={cnt}')
            lines.append(f'  {v2["detail"]}')
            exit_code = 1

        # 4. sensitivity mutants
        sens = {'mutants_run': 0, 'mutants_caught': 0, 'unavailable': [], 'missed': [], 'caught': {}}
        names = [m['name'] for m in spec.mutants] if tier == 'thorough' else list(spec.quick_mutants)
        if os.environ.get('VERIF_NO_MUTANTS'):
            names = []
        for m in spec.mutants:
            if m['name'] not in names:
                continue
            budget = m.get('budget', 4000 if tier == 'quick' else 40000)
            exm = make_pool(spec) if getattr(spec, 'isolated_mutants', False) else ex
            try:
                caught = None
                for stratum_try in (m.get('strata') or [None]):
                    r = batch(exm, spec, tier, base_seed + 7919, budget, mutant=m,
                              only_stratum=stratum_try, max_viol=1, stop_on_first=True,
                              chunk=max(20, budget // (NPROC * 8)))
                    new = [x for x in r['violations']
                           if not match_known(known, x[4], x[2])]
                    if new:
                        caught = new[0]
                        break
                sens['mutants_run'] += 1
                if caught:
                    sens['mutants_caught'] += 1
                    sens['caught'][m['name']] = f'{caught[4]["kind"]}:{caught[4]["signature"]} (run {caught[0]})'
                else:
                    sens['missed'].append(m['name'])
            except MutantUnavailable as e:
                sens['unavailable'].append(m['name'])
            except Exception as e:
                if 'MutantUnavailable' in repr(e) or 'MutantUnavailable' in traceback.format_exc():
                    sens['unavailable'].append(m['name'])
                else:
                    harness_msgs.append(f'mutant {m["name"]} failed to run: {e!r}')
            finally:
                if exm is not ex:
                    close_pool(exm)
        if sens['missed']:
            lines.append(f'SELFTEST-WARNING: mutants not caught within budget: {sens["missed"]}')
        samples_raw = []
        for k in range(3):
            stratum = stratum_for(spec, tier, k)
            samples_raw.append((k, stratum) + tuple(
                in_worker(ex, _run_seed_job, derive_seed(base_seed, k), stratum, True)))
    finally:
        close_pool(ex)

    wall = time.time() - t0
    # 5. evidence
    samples = []
    for (k, stratum, res, used) in samples_raw:
        s = spec.render_sample(res, used)
        s.update({'run_index': k, 'stratum': stratum, 'tape_len': len(used), 'steps': res['steps'],
                  'sim_time': res['sim_time']})
        samples.append(s)
    ev = {
        'property_id': pid, 'tier': tier, 'seed': base_seed, 'level': 'exploration',
        'coverage': {
            'evaluations': total['n'],
            'distinct_nontrivial': len(total['digests']),
            'rule': spec.rule,
            'samples': samples,
            'nontrivial_runs': total['nontrivial'],
            'runs_per_hour': int(total['n'] / max(total['wall'], 1e-6) * 3600),
            'search_wall_s': round(total['wall'], 2),
            'processes': NPROC,
            'simulated_seconds_total': round(total['sim_time'], 3),
            'loop_steps_total': total['steps'],
            'requests_served': total['served'],
            'seeds': {'base': base_seed, 'run_indices': [0, n], 'derivation': 'blake2b(base:index)'},
            'strata': dict(total['strata']),
            'fault_fired': dict(sorted(total['faults'].items())),
            'probes': dict(sorted(total['probes'].items())),
            'internal_errors_observed': dict(total['internal_errors'].most_common(8)),
            'components': spec.components,
            'determinism': det,
            'sensitivity': sens,
            'liveness_bound_max_s': round(total['max_bound'], 2),
            'known_findings_hit': {k: v[2] for k, v in known_hit.items()},
            'fixed_findings_exemplars': fixed_stats,
            'violation_signatures': {f'{k[1]}:{k[2]}': c for k, c in total['viol_counts'].items()},
            'observations_in_unclaimed_strata': dict(total['observations'].most_common(20)),
            'harness_errors': harness_msgs[:10],
        },
        'assumptions': spec.assumptions,
        'wall_s': round(wall, 2),
        'violations': sum(1 for l in lines if l.startswith('VIOLATION')),
    }
    os.makedirs(os.path.join(VERIF, 'evidence'), exist_ok=True)
    with open(os.path.join(VERIF, 'evidence', f'{pid}.json'), 'w') as f:
        json.dump(ev, f, indent=1, default=str)

    for l in lines:
        out(l)
    out(f'{pid} {tier}: {total["n"]} runs, {len(total["digests"])} distinct non-trivial interleavings, '
        f'{total["sim_time"]:.0f} simulated s, {int(total["n"] / max(total["wall"], 1e-6) * 3600)} runs/h, '
        f'determinism {det["seeds_rechecked"]}+{det["fresh_interpreter_rechecks"]} rechecks '
        f'{det["in_process_mismatches"] + det["fresh_mismatches"]} mismatches, '
        f'mutants {sens["mutants_caught"]}/{sens["mutants_run"]}, wall {wall:.0f}s')
    if harness_msgs:
        for m in harness_msgs:
            out('HARNESS-ERROR: ' + m)
        if exit_code == 0:
            exit_code = 2
    return exit_code


def hash_str(s):
    import hashlib
    return int.from_bytes(hashlib.blake2b(s.encode(), digest_size=6).digest(), 'big')
