"""The choice tape: the single source of every random decision of a run.

generate mode: values come from random.Random(seed) and are recorded;
replay mode:   values come from the recorded list (``tape[i] % n``), an
               exhausted tape yields 0.

By convention 0 is the simplest choice at every draw site (smallest world, no
fault, shortest delay, stop generating), so deleting or zeroing tape entries
simplifies the run: that is all the shrinker needs to know.
"""
from __future__ import annotations

import hashlib
import random


def derive_seed(base: int, index: int) -> int:
    """Seed of run ``index`` of a batch with base seed ``base``; independent
    of how runs are distributed over worker processes."""
    h = hashlib.blake2b(f'{base}:{index}'.encode(), digest_size=8).digest()
    return int.from_bytes(h, 'big')


class Tape:
    __slots__ = ('values', 'pos', 'rng', 'labels', 'record_labels', 'overrun')

    def __init__(self, *, seed=None, values=None, record_labels=False):
        if (seed is None) == (values is None):
            raise ValueError('exactly one of seed / values')
        self.rng = random.Random(seed) if seed is not None else None
        self.values = [] if values is None else list(values)
        self.pos = 0
        self.labels = [] if record_labels else None
        self.record_labels = record_labels
        self.overrun = 0

    @property
    def replaying(self):
        return self.rng is None

    def draw(self, n: int, label: str = '') -> int:
        """An integer in [0, n)."""
        if n <= 1:
            v = 0
            raw = 0
            if self.rng is not None:
                self.values.append(0)
            elif self.pos >= len(self.values):
                self.overrun += 1
        elif self.rng is not None:
            v = raw = self.rng.randrange(n)
            self.values.append(v)
        else:
            if self.pos < len(self.values):
                raw = self.values[self.pos]
                v = raw % n
            else:
                raw = v = 0
                self.overrun += 1
        self.pos += 1
        if self.labels is not None:
            self.labels.append((label, n, v))
        return v

    def chance(self, num: int, den: int, label: str = '') -> bool:
        """True with probability num/den; 0 (the simple choice) means False."""
        if num <= 0:
            # still consume nothing: a disabled fault site must not shift the tape
            return False
        return self.draw(den, label) >= den - num

    def pick(self, seq, label=''):
        return seq[self.draw(len(seq), label)]

    def weighted(self, weights, label='') -> int:
        """Index drawn with the given integer weights; index 0 is reached by
        the smallest tape values."""
        total = sum(weights)
        r = self.draw(total, label)
        acc = 0
        for i, w in enumerate(weights):
            acc += w
            if r < acc:
                return i
        return len(weights) - 1

    def used(self):
        """The prefix of the tape that the run actually consumed."""
        return self.values[:self.pos]


# ---------------------------------------------------------------------------
# Shrinking
# ---------------------------------------------------------------------------

def shrink(values, still_fails, *, max_attempts=600):
    """Greedy tape minimisation (delete chunks, zero entries, lower values).

    ``still_fails(candidate) -> (bool, used_prefix_or_None)`` re-runs the world
    on the candidate tape; it must return True only if the run fails with the
    same property, kind and signature.  Returns the smallest failing tape
    found within ``max_attempts`` re-runs.
    """
    best = list(values)
    attempts = 0
    seen = set()

    def try_(cand):
        nonlocal best, attempts
        key = tuple(cand)
        if key in seen:
            return False
        seen.add(key)
        if attempts >= max_attempts:
            return False
        attempts += 1
        ok, used = still_fails(cand)
        if ok:
            if used is not None and len(used) <= len(cand):
                cand = list(used)
            # strip trailing zeros: an exhausted tape yields 0 anyway
            while cand and cand[-1] == 0:
                cand = cand[:-1]
            if (len(cand), cand) < (len(best), best) or len(cand) < len(best):
                best = list(cand)
            return True
        return False

    try_(list(best))   # normalise (consumed prefix, trailing zeros)
    improved = True
    while improved and attempts < max_attempts:
        improved = False
        # 1. delete chunks, large to small
        size = max(len(best) // 2, 1)
        while size >= 1 and attempts < max_attempts:
            i = 0
            while i < len(best) and attempts < max_attempts:
                cand = best[:i] + best[i + size:]
                if try_(cand):
                    improved = True
                else:
                    i += size
            size //= 2
        # 2. zero chunks / entries
        size = max(len(best) // 4, 1)
        while size >= 1 and attempts < max_attempts:
            for i in range(0, len(best), size):
                if attempts >= max_attempts:
                    break
                if any(best[i:i + size]):
                    cand = best[:i] + [0] * len(best[i:i + size]) + best[i + size:]
                    if try_(cand):
                        improved = True
            size //= 2
        # 2b. lower a count and delete the draws of the element it no longer
        # generates (a lone deletion mis-aligns everything after it, a lone
        # decrement leaves the dropped element's draws to be read by others)
        for i in range(len(best)):
            if attempts >= max_attempts:
                break
            if i >= len(best) or best[i] == 0:
                continue
            done = False
            for k in (1, 2, 3, 4, 5, 6, 8, 10, 12):
                for j in range(i + 1, min(len(best) - k + 1, i + 60)):
                    if attempts >= max_attempts:
                        break
                    cand = best[:i] + [best[i] - 1] + best[i + 1:j] + best[j + k:]
                    if try_(cand):
                        improved = True
                        done = True
                        break
                if done or attempts >= max_attempts:
                    break
        # 3. lower individual values
        for i in range(len(best)):
            if attempts >= max_attempts:
                break
            v = best[i] if i < len(best) else 0
            if i >= len(best) or v == 0:
                continue
            for nv in (v // 2, v - 1):
                if nv < v and nv >= 0 and i < len(best):
                    cand = best[:i] + [nv] + best[i + 1:]
                    if try_(cand):
                        improved = True
                        break
    return best, attempts
