"""Virtual-time asyncio event loop.

SimLoop reproduces the ordering rules of asyncio.BaseEventLoop._run_once
(CPython 3.12) -- FIFO ready queue, timers moved to the ready queue at the
start of an iteration, callbacks scheduled during an iteration wait for the
next one -- but

  * time() is a simulated clock that only moves when an iteration starts with
    nothing ready (jump to the earliest timer) or when the simulator stalls
    the process on purpose (``stall``);
  * handles are run one at a time through ``step()`` so that an invariant
    monitor can run after every single callback;
  * nothing reads a real clock, a selector, a socket or a thread.

It does not permute the ready queue: every schedule it produces is one stock
asyncio could produce with suitable I/O completion times.
"""
from __future__ import annotations

import asyncio
import heapq
import inspect


def _resolve_future(fut):
    if not fut.done():
        fut.set_result(None)


class HarnessError(Exception):
    """A defect or limit of the simulator itself (never a property verdict)."""


class SimLoop(asyncio.BaseEventLoop):

    def __init__(self):
        super().__init__()
        self._vtime = 0.0
        # BaseEventLoop uses time.get_clock_info('monotonic').resolution;
        # keep the same order of magnitude so "due" means the same thing.
        self._clock_resolution = 1e-9
        self.steps = 0            # handles run
        self.iterations = 0       # _run_once equivalents
        self._ntodo = 0           # handles left in the current iteration
        self.after_step = None    # invariant monitor
        # insertion-ordered (dicts), never sets: iteration order must not depend
        # on object addresses
        self.sim_tasks = {}       # tasks created by the code under test
        self.harness_tasks = {}
        self._unstarted = {}      # non-harness tasks whose coroutine has not run yet
        self.task_failures = []   # (task, exception) of non-harness tasks
        self.callback_failures = []  # contexts passed to the exception handler
        self._in_harness = 0
        # Order among *external* events that complete at the same simulated
        # instant (client timers, backend completions, operator events): in
        # reality they differ by microseconds, so any order is realistic; the
        # world supplies a draw function and the loop permutes only handles
        # it was told are external.  Timers of the code under test keep their
        # heap order (their real deadlines are ordered by scheduling time).
        self.tie_breaker = None
        self._external_ids = set()    # id() of timer handles of external events (TimerHandle has __slots__)
        self.set_exception_handler(self._on_exception)

    # -- clock -----------------------------------------------------------
    def time(self):
        return self._vtime

    def stall(self, dt):
        """The process was not scheduled for ``dt`` seconds (GC pause, busy
        CPU): the clock moves although no callback ran."""
        if dt > 0:
            self._vtime += dt

    # -- selector stubs ----------------------------------------------------
    def _process_events(self, event_list):
        pass

    def _write_to_self(self):
        pass

    # -- task bookkeeping --------------------------------------------------
    def create_task(self, coro, *, name=None, context=None):
        task = super().create_task(coro, name=name, context=context)
        if self._in_harness:
            self.harness_tasks[task] = None
        else:
            self.sim_tasks[task] = None
            self._unstarted[task] = None
            task.add_done_callback(self._sim_task_done)
        return task

    def harness_task(self, coro):
        self._in_harness += 1
        try:
            return self.create_task(coro)
        finally:
            self._in_harness -= 1

    def _sim_task_done(self, task):
        self.sim_tasks.pop(task, None)
        self._unstarted.pop(task, None)
        if not task.cancelled():
            e = task.exception()   # also marks it retrieved
            if e is not None:
                self.task_failures.append((task, e))

    def count_unstarted(self):
        """Tasks created by the code under test whose coroutine has not had
        its first step yet."""
        if not self._unstarted:
            return 0
        gone = [t for t in self._unstarted
                if t.done() or inspect.getcoroutinestate(t.get_coro())
                != inspect.CORO_CREATED]
        for t in gone:
            self._unstarted.pop(t, None)
        return len(self._unstarted)

    def _on_exception(self, loop, context):
        self.callback_failures.append(context)

    # -- stepping ------------------------------------------------------------
    def _begin_iteration(self):
        """Equivalent of the part of _run_once before the ready loop.
        Returns False if there is nothing at all left to do."""
        sched = self._scheduled
        # (stock asyncio also rebuilds the heap when many timers are cancelled;
        # that changes no observable ordering among live timers.)
        while sched and sched[0]._cancelled:
            self._timer_cancelled_count -= 1
            h = heapq.heappop(sched)
            h._scheduled = False
            self._external_ids.discard(id(h))
        if not self._ready:
            if not sched:
                return False
            when = sched[0]._when
            if when > self._vtime:
                self._vtime = when
        end_time = self._vtime + self._clock_resolution
        due = []
        while sched:
            h = sched[0]
            if h._when >= end_time:
                break
            h = heapq.heappop(sched)
            h._scheduled = False
            due.append(h)
        if len(due) > 1 and self.tie_breaker is not None and self._external_ids:
            self._permute_external_ties(due)
        if self._external_ids:
            for h in due:
                self._external_ids.discard(id(h))
        self._ready.extend(due)
        self._ntodo = len(self._ready)
        self.iterations += 1
        return True

    def _permute_external_ties(self, due):
        i = 0
        n = len(due)
        while i < n:
            j = i + 1
            while j < n and due[j]._when == due[i]._when:
                j += 1
            if j - i > 1:
                idx = [k for k in range(i, j)
                       if id(due[k]) in self._external_ids and not due[k]._cancelled]
                if len(idx) > 1:
                    hs = [due[k] for k in idx]
                    # Fisher-Yates driven by the tape (0 = keep heap order)
                    for a in range(len(hs) - 1):
                        b = a + self.tie_breaker(len(hs) - a)
                        hs[a], hs[b] = hs[b], hs[a]
                    for k, h in zip(idx, hs):
                        due[k] = h
            i = j

    def call_later_external(self, delay, callback, *args):
        h = self.call_later(delay, callback, *args)
        self._external_ids.add(id(h))
        return h

    def call_at_external(self, when, callback, *args):
        h = self.call_at(when, callback, *args)
        self._external_ids.add(id(h))
        return h

    async def sleep_external(self, delay):
        """asyncio.sleep for harness tasks whose wake-up is an external event."""
        fut = self.create_future()
        h = self.call_later_external(delay, _resolve_future, fut)
        try:
            return await fut
        finally:
            h.cancel()

    def step(self):
        """Run exactly one handle. Returns False when the loop is idle (no
        ready handle and no timer)."""
        while True:
            if self._ntodo <= 0:
                if not self._begin_iteration():
                    return False
            while self._ntodo > 0:
                self._ntodo -= 1
                h = self._ready.popleft()
                if h._cancelled:
                    continue
                self.steps += 1
                h._run()
                h = None
                if self.after_step is not None:
                    self.after_step()
                return True

    def idle(self):
        if self._ready:
            return False
        return not any(not h._cancelled for h in self._scheduled)

    def next_timer(self):
        live = [h._when for h in self._scheduled if not h._cancelled]
        return min(live) if live else None

    # -- lifecycle -------------------------------------------------------------
    def __enter__(self):
        self._prev_running = asyncio._get_running_loop()
        asyncio._set_running_loop(self)
        return self

    def __exit__(self, *exc):
        asyncio._set_running_loop(self._prev_running)
        return False

    def shutdown(self, max_steps=20000):
        """Cancel whatever is left and drain, so that no coroutine is
        garbage-collected while pending (which would log, and logging must
        never depend on the run)."""
        self.after_step = None
        with self:
            for _ in range(5):
                pending = [t for t in list(self.sim_tasks) + list(self.harness_tasks)
                           if not t.done()]
                if not pending:
                    break
                for t in pending:
                    t.cancel()
                n = 0
                while self._ready and n < max_steps:
                    self._ntodo = 0
                    h = self._ready.popleft()
                    if not h._cancelled:
                        try:
                            h._run()
                        except BaseException:
                            pass
                    n += 1
            for h in self._scheduled:
                h._cancelled = True
            self._scheduled.clear()
            self._ready.clear()
        for t in list(self.sim_tasks) + list(self.harness_tasks):
            if t.done() and not t.cancelled():
                t.exception()
        self.sim_tasks.clear()
        self.harness_tasks.clear()
        self._unstarted.clear()
        try:
            self.close()
        except Exception:
            pass
